"""Translator for C18: the literal data of the performance codec, read from the LIVE source
(partitura/musicanalysis/performance_codec.py, partitura/utils/generic.py) -> lean/PartituraModel/Gen/C18Lits.lean.

Nothing is executed except the import of the module (for `TEMPO_NORMALIZATION` and the signatures); the function
bodies are parsed (ast) and small parts of them are interpreted symbolically:

  C18_NORMS / C18_PARAM_NAMES   keys and `param_names` of the live `TEMPO_NORMALIZATION`
  C18_rescale                   the `rescale` function of every normalisation, its return expression translated to Lean
                                over the columns `param_names` (`2 ** column` becomes the column itself: the model's
                                logarithmic columns hold 2^x — the columns read that way are listed in C18_EXP2_COLS)
  C18_scaleRow                  the `scale` function of every normalisation, interpreted statement by statement with
                                `np.mean(beat_period)` = m, `np.std(beat_period)` = sd, `* np.ones_like(..)` dropped,
                                `np.divide(a, b, out=zeros, where=b != 0)` = if b = 0 then 0 else a / b, `np.log2(x)` = x
                                (listed in C18_LOG2_COLS), calls of another scale function inlined
  constants                     the clip of performed durations in to_matched_score, the quantisation factor of the onset
                                keys (every `(<c> * score_onsets).astype(int)`), the default `eps` of
                                get_unique_onset_idxs, `dx` and the weights of the central difference, the velocity scale
                                and the clip bounds of encode_performance / decode_performance, the pitch clip, the
                                `last_time` step of get_unique_seq and numpy's `isclose` tolerances, the label compared
                                with in to_matched_score / get_matched_notes, the grace-note test of encode_articulation
  lists                         `parameter_names` of encode_tempo, the columns decode_performance hands to decode_time,
                                `fields` of to_matched_score, the feature functions of `include_score_markings`,
                                keyword defaults of the public functions

The generator never raises: what cannot be read is emitted as a neutral value, `C18_OK` becomes false and the reason is
listed in `C18_NOTES`; `C18.source_literals` (Props/C18Src.lean) then no longer builds.
"""
import ast
import inspect
import textwrap
from fractions import Fraction


def _lstr(s):
    out = ['"']
    for ch in str(s):
        if ch == '"':
            out.append('\\"')
        elif ch == "\\":
            out.append("\\\\")
        elif ord(ch) < 32 or ord(ch) > 126:
            out.append("\\u{%x}" % ord(ch))
        else:
            out.append(ch)
    out.append('"')
    return "".join(out)


def _lrat(x):
    f = x if isinstance(x, Fraction) else (Fraction(*x.as_integer_ratio()) if isinstance(x, float) else Fraction(x))
    if f.denominator == 1:
        return "(%d : Rat)" % f.numerator
    return "((%d : Rat) / %d)" % (f.numerator, f.denominator)


def _lbool(b):
    return "true" if b else "false"


def _llist(items):
    return "[" + ", ".join(items) + "]"


class Unexpected(Exception):
    pass


def _const_fraction(node):
    """exact value of a literal arithmetic expression (decimal literals as written: 1e4 = 10000, 0.25 = 1/4)"""
    if isinstance(node, ast.Constant) and isinstance(node.value, (int, float)) and not isinstance(node.value, bool):
        return Fraction(repr(node.value)) if isinstance(node.value, float) else Fraction(node.value)
    if isinstance(node, ast.UnaryOp) and isinstance(node.op, ast.USub):
        return -_const_fraction(node.operand)
    if isinstance(node, ast.BinOp):
        a, b = _const_fraction(node.left), _const_fraction(node.right)
        if isinstance(node.op, ast.Add):
            return a + b
        if isinstance(node.op, ast.Sub):
            return a - b
        if isinstance(node.op, ast.Mult):
            return a * b
        if isinstance(node.op, ast.Div):
            return a / b
    raise Unexpected("literal expression expected: %s" % ast.dump(node)[:80])


def _fn(tree, name):
    for n in tree.body:
        if isinstance(n, ast.FunctionDef) and n.name == name:
            return n
    raise Unexpected("function %s not found" % name)


def _calls(node, fname):
    """calls of `fname` / `<x>.fname` inside node"""
    for n in ast.walk(node):
        if isinstance(n, ast.Call):
            f = n.func
            if (isinstance(f, ast.Name) and f.id == fname) or (isinstance(f, ast.Attribute) and f.attr == fname):
                yield n


def _str_list(node):
    if isinstance(node, ast.Call) and isinstance(node.func, ast.Name) and node.func.id in ("list", "tuple") and len(node.args) == 1:
        node = node.args[0]
    if isinstance(node, (ast.List, ast.Tuple)) and all(isinstance(e, ast.Constant) and isinstance(e.value, str) for e in node.elts):
        return [e.value for e in node.elts]
    raise Unexpected("list of strings expected: %s" % ast.dump(node)[:80])


# ------------------------------------------------------------------ rescale / scale -> Lean
def _rescale_expr(node, arg, names, exp2):
    if isinstance(node, ast.Subscript) and isinstance(node.value, ast.Name) and node.value.id == arg:
        key = node.slice
        if isinstance(key, ast.Constant) and key.value in names:
            return "c%d" % names.index(key.value)
        raise Unexpected("unknown column %s" % ast.dump(key)[:60])
    if isinstance(node, ast.BinOp) and isinstance(node.op, ast.Pow):
        if isinstance(node.left, ast.Constant) and node.left.value == 2 and isinstance(node.right, ast.Subscript):
            col = _rescale_expr(node.right, arg, names, exp2)
            exp2.append(names[int(col[1:])])
            return col
        raise Unexpected("only 2 ** column is understood")
    if isinstance(node, ast.BinOp):
        op = {ast.Add: "+", ast.Sub: "-", ast.Mult: "*", ast.Div: "/"}.get(type(node.op))
        if op is None:
            raise Unexpected("operator %s" % type(node.op).__name__)
        return "(%s %s %s)" % (_rescale_expr(node.left, arg, names, exp2), op, _rescale_expr(node.right, arg, names, exp2))
    if isinstance(node, ast.Constant):
        return _lrat(_const_fraction(node))
    raise Unexpected("rescale expression: %s" % ast.dump(node)[:80])


def _is_np(call, name):
    return isinstance(call, ast.Call) and isinstance(call.func, ast.Attribute) and call.func.attr == name


def _scale_interp(tree, fname, log2, depth=0):
    """the list of Lean expressions (in b, m, sd) a scale function returns"""
    if depth > 3:
        raise Unexpected("scale functions call each other too deeply")
    fn = _fn(tree, fname)
    arg = fn.args.args[0].arg
    env = {arg: "b"}

    def ev(node):
        if isinstance(node, ast.Name):
            if node.id in env:
                return env[node.id]
            raise Unexpected("unknown name %s in %s" % (node.id, fname))
        if isinstance(node, ast.Constant):
            return _lrat(_const_fraction(node))
        if isinstance(node, ast.BinOp):
            # `x * np.ones_like(beat_period)`: broadcasting of a scalar
            if isinstance(node.op, ast.Mult) and _is_np(node.right, "ones_like"):
                return ev(node.left)
            if isinstance(node.op, ast.Mult) and _is_np(node.left, "ones_like"):
                return ev(node.right)
            op = {ast.Add: "+", ast.Sub: "-", ast.Mult: "*", ast.Div: "/"}.get(type(node.op))
            if op is None:
                raise Unexpected("operator %s in %s" % (type(node.op).__name__, fname))
            return "(%s %s %s)" % (ev(node.left), op, ev(node.right))
        if _is_np(node, "mean") and len(node.args) == 1 and ev(node.args[0]) == "b":
            return "m"
        if _is_np(node, "std") and len(node.args) == 1 and ev(node.args[0]) == "b":
            return "sd"
        if _is_np(node, "log2") and len(node.args) == 1:
            log2.append(fname)
            return ev(node.args[0])
        if _is_np(node, "divide") and len(node.args) == 2:
            kw = dict((k.arg, k.value) for k in node.keywords)
            a, b = ev(node.args[0]), ev(node.args[1])
            w = kw.get("where")
            if (w is not None and isinstance(w, ast.Compare) and len(w.ops) == 1 and isinstance(w.ops[0], ast.NotEq)
                    and ev(w.left) == b and _const_fraction(w.comparators[0]) == 0 and _is_np(kw.get("out"), "zeros_like")):
                return "(if %s = 0 then 0 else %s / %s)" % (b, a, b)
            if w is None:
                return "(%s / %s)" % (a, b)
            raise Unexpected("np.divide(where=...) of %s not understood" % fname)
        raise Unexpected("expression of %s: %s" % (fname, ast.dump(node)[:80]))

    for st in fn.body:
        if isinstance(st, ast.Expr) and isinstance(st.value, ast.Constant):
            continue  # docstring
        if isinstance(st, ast.Assign) and len(st.targets) == 1:
            tg = st.targets[0]
            if isinstance(tg, ast.Name):
                env[tg.id] = ev(st.value)
                continue
            if (isinstance(tg, ast.Tuple) and isinstance(st.value, ast.Call) and isinstance(st.value.func, ast.Name)
                    and len(st.value.args) == 1 and ev(st.value.args[0]) == "b"):
                inner = _scale_interp(tree, st.value.func.id, log2, depth + 1)
                if len(inner) != len(tg.elts):
                    raise Unexpected("%s unpacks %d values of %d" % (fname, len(tg.elts), len(inner)))
                for t, v in zip(tg.elts, inner):
                    env[t.id] = v
                continue
        if isinstance(st, ast.Return) and isinstance(st.value, (ast.List, ast.Tuple)):
            return [ev(e) for e in st.value.elts]
        raise Unexpected("statement of %s: %s" % (fname, ast.dump(st)[:80]))
    raise Unexpected("%s does not return a list" % fname)


# ------------------------------------------------------------------ the generator
def gen_c18lits():
    notes = []
    v = {
        "NORMS": [], "PARAM_NAMES": [], "RESCALE": [], "EXP2": [], "SCALE": [], "LOG2": [],
        "CLIP_DUR": Fraction(0), "ONSET_QUANT": [], "GROUP_EPS": Fraction(0), "DERIV_DX": Fraction(0), "DERIV_WEIGHTS": [],
        "VEL_ENC": Fraction(0), "VEL_DEC": Fraction(0), "VEL_CLIP": [], "PITCH_CLIP": [], "LAST_STEP": Fraction(0),
        "ISCLOSE": [], "MATCH_LABELS": [], "GRACE_LE_ZERO": False, "BASE_PARAMS": [], "DECODE_PARAMS": [], "FIELDS": [],
        "FEATURES": [], "DEFAULTS": [], "STR_IDS": [], "ID_LOOKUPS": [],
    }

    def attempt(what, f):
        try:
            f()
        except Exception as e:  # noqa
            notes.append("%s: %s: %s" % (what, type(e).__name__, e))

    try:
        import warnings

        with warnings.catch_warnings():
            warnings.simplefilter("ignore")
            import numpy as np
            import partitura.musicanalysis.performance_codec as pc
            import partitura.utils.generic as G
        tree = ast.parse(textwrap.dedent(inspect.getsource(pc)))
        gtree = ast.parse(textwrap.dedent(inspect.getsource(G)))
    except Exception as e:  # pragma: no cover
        notes.append("partitura not importable (%s: %s)" % (type(e).__name__, e))
        tree = gtree = None

    if tree is not None:
        def norms():
            T = pc.TEMPO_NORMALIZATION
            v["NORMS"] = list(T.keys())
            v["PARAM_NAMES"] = [(k, list(T[k]["param_names"])) for k in T]
            for k in T:
                names = list(T[k]["param_names"])
                fn = _fn(tree, T[k]["rescale"].__name__)
                body = [s for s in fn.body if not (isinstance(s, ast.Expr) and isinstance(s.value, ast.Constant))]
                if len(body) != 1 or not isinstance(body[0], ast.Return):
                    raise Unexpected("%s is not a single return" % fn.name)
                exp2 = []
                v["RESCALE"].append((k, len(names), _rescale_expr(body[0].value, fn.args.args[0].arg, names, exp2)))
                v["EXP2"].append((k, exp2))
                log2 = []
                cols = _scale_interp(tree, T[k]["scale"].__name__, log2)
                if len(cols) != len(names):
                    raise Unexpected("scale of %s returns %d columns for %d names" % (k, len(cols), len(names)))
                v["SCALE"].append((k, cols))
                v["LOG2"].append((k, sorted(set(log2))))
        attempt("normalisation table", norms)

        def clip():
            fn = _fn(tree, "to_matched_score")
            found = []
            for c in _calls(fn, "max"):
                if len(c.args) == 2 and isinstance(c.args[0], ast.Subscript) and isinstance(c.args[0].slice, ast.Constant) \
                        and c.args[0].slice.value == "duration_sec":
                    found.append(_const_fraction(c.args[1]))
            if len(found) != 1:
                raise Unexpected("%d clips of duration_sec in to_matched_score" % len(found))
            v["CLIP_DUR"] = found[0]
        attempt("duration clip", clip)

        def quant():
            out = []
            for fname in ("decode_time", "tempo_by_average", "tempo_by_derivative"):
                fn = _fn(tree, fname)
                got = []
                for c in _calls(fn, "astype"):
                    tgt = c.func.value
                    if len(c.args) == 1 and isinstance(c.args[0], ast.Name) and c.args[0].id == "int" and isinstance(tgt, ast.BinOp) \
                            and isinstance(tgt.op, ast.Mult):
                        side = tgt.left if isinstance(tgt.left, ast.Constant) else tgt.right
                        got.append(_const_fraction(side))
                if len(got) != 1:
                    raise Unexpected("%d onset quantisations in %s" % (len(got), fname))
                out.append((fname, got[0]))
            v["ONSET_QUANT"] = out
        attempt("onset quantisation", quant)

        def eps():
            v["GROUP_EPS"] = Fraction(repr(float(inspect.signature(pc.get_unique_onset_idxs).parameters["eps"].default)))
        attempt("eps of get_unique_onset_idxs", eps)

        def deriv():
            fn = _fn(tree, "tempo_by_derivative")
            cs = list(_calls(fn, "first_order_derivative"))
            if len(cs) != 1:
                raise Unexpected("%d calls of first_order_derivative" % len(cs))
            kw = dict((k.arg, k.value) for k in cs[0].keywords)
            if "dx" in kw:
                v["DERIV_DX"] = _const_fraction(kw["dx"])
            elif len(cs[0].args) >= 3:
                v["DERIV_DX"] = _const_fraction(cs[0].args[2])
            else:
                v["DERIV_DX"] = Fraction(repr(float(inspect.signature(G.first_order_derivative).parameters["dx"].default)))
            g = _fn(gtree, "first_order_derivative")
            ws = None
            for st in g.body:
                if isinstance(st, ast.Assign) and isinstance(st.targets[0], ast.Name) and st.targets[0].id == "weights":
                    val = st.value
                    if isinstance(val, ast.BinOp) and isinstance(val.op, ast.Div) and _is_np(val.left, "array"):
                        d = _const_fraction(val.right)
                        ws = [_const_fraction(e) / d for e in val.left.args[0].elts]
            if ws is None:
                raise Unexpected("weights of first_order_derivative not found")
            v["DERIV_WEIGHTS"] = ws
        attempt("central difference", deriv)

        def velocity():
            fn = _fn(tree, "encode_performance")
            enc = [n for n in ast.walk(fn) if isinstance(n, ast.BinOp) and isinstance(n.op, ast.Div) and isinstance(n.left, ast.Subscript)
                   and isinstance(n.left.slice, ast.Constant) and n.left.slice.value == "velocity"]
            if len(enc) != 1:
                raise Unexpected("%d velocity scalings in encode_performance" % len(enc))
            v["VEL_ENC"] = _const_fraction(enc[0].right)
            fn = _fn(tree, "decode_performance")
            dec = None
            for c in _calls(fn, "round"):
                a = c.args[0]
                if isinstance(a, ast.BinOp) and isinstance(a.op, ast.Mult):
                    dec = _const_fraction(a.right if isinstance(a.right, ast.Constant) else a.left)
            if dec is None:
                raise Unexpected("np.round(velocity * c) not found in decode_performance")
            v["VEL_DEC"] = dec
            for c in _calls(fn, "clip"):
                if isinstance(c.args[0], ast.Name) and c.args[0].id == "velocities":
                    v["VEL_CLIP"] = [_const_fraction(c.args[1]), _const_fraction(c.args[2])]
                if isinstance(c.args[0], ast.Name) and c.args[0].id == "pitches":
                    v["PITCH_CLIP"] = [_const_fraction(c.args[1]), _const_fraction(c.args[2])]
            if len(v["VEL_CLIP"]) != 2 or len(v["PITCH_CLIP"]) != 2:
                raise Unexpected("clips of velocities / pitches not found in decode_performance")
        attempt("velocity / pitch", velocity)

        def last_time():
            fn = _fn(tree, "get_unique_seq")
            step = None
            for n in ast.walk(fn):
                if isinstance(n, ast.Assign) and isinstance(n.targets[0], ast.Name) and n.targets[0].id == "last_time" \
                        and isinstance(n.value, ast.BinOp) and isinstance(n.value.op, ast.Add):
                    step = _const_fraction(n.value.right)
            if step is None:
                raise Unexpected("last_time = max(onsets) + c not found")
            v["LAST_STEP"] = step
            cs = list(_calls(fn, "isclose"))
            if len(cs) != 1 or cs[0].keywords or len(cs[0].args) != 2:
                raise Unexpected("np.isclose(a, b) with default tolerances expected in get_unique_seq")
            sig = inspect.signature(np.isclose).parameters
            v["ISCLOSE"] = [Fraction(repr(float(sig["rtol"].default))), Fraction(repr(float(sig["atol"].default)))]
        attempt("last_time", last_time)

        def labels():
            out = []
            for fname in ("to_matched_score", "get_matched_notes"):
                fn = _fn(tree, fname)
                got = set()
                for n in ast.walk(fn):
                    if isinstance(n, ast.Compare) and len(n.ops) == 1 and isinstance(n.ops[0], ast.Eq) and isinstance(n.left, ast.Subscript) \
                            and isinstance(n.left.slice, ast.Constant) and n.left.slice.value == "label" \
                            and isinstance(n.comparators[0], ast.Constant):
                        got.add(n.comparators[0].value)
                if len(got) != 1:
                    raise Unexpected("labels compared with in %s: %r" % (fname, sorted(got)))
                out.append((fname, got.pop()))
            v["MATCH_LABELS"] = out
        attempt("match label", labels)

        def id_forms():
            # which side each function passes through str(): `str(a["score_id"])` / `str(al["performance_id"])`, and the
            # dict look-ups `part_by_id[a["score_id"]]`, `ppart_by_id[a["performance_id"]]` of to_matched_score
            out = []
            for fname in ("to_matched_score", "get_matched_notes"):
                fn = _fn(tree, fname)
                keys = set()
                for c in _calls(fn, "str"):
                    if len(c.args) == 1 and isinstance(c.args[0], ast.Subscript) and isinstance(c.args[0].value, ast.Name) \
                            and isinstance(c.args[0].slice, ast.Constant) and isinstance(c.args[0].slice.value, str):
                        keys.add(c.args[0].slice.value)
                out.append((fname, sorted(keys)))
            v["STR_IDS"] = out
            look = []
            fn = _fn(tree, "to_matched_score")
            for n in ast.walk(fn):
                if isinstance(n, ast.Subscript) and isinstance(n.value, ast.Name) and n.value.id.endswith("_by_id") \
                        and isinstance(n.slice, ast.Subscript) and isinstance(n.slice.slice, ast.Constant):
                    look.append((n.value.id, n.slice.slice.value))
            v["ID_LOOKUPS"] = sorted(set(look))
            if not any(k for _, k in out):
                raise Unexpected("no str(entry[key]) normalisation found in to_matched_score / get_matched_notes")
        attempt("id normalisation", id_forms)

        def grace():
            fn = _fn(tree, "encode_articulation")
            ok = False
            for n in ast.walk(fn):
                if isinstance(n, ast.Assign) and isinstance(n.targets[0], ast.Name) and n.targets[0].id == "grace_mask":
                    c = n.value
                    ok = isinstance(c, ast.Compare) and isinstance(c.ops[0], ast.LtE) and _const_fraction(c.comparators[0]) == 0
            v["GRACE_LE_ZERO"] = ok
            if not ok:
                raise Unexpected("grace_mask = sd <= 0 not found")
        attempt("grace-note test", grace)

        def lists():
            fn = _fn(tree, "encode_tempo")
            for n in ast.walk(fn):
                if isinstance(n, ast.Assign) and isinstance(n.targets[0], ast.Name) and n.targets[0].id == "parameter_names":
                    v["BASE_PARAMS"] = _str_list(n.value)
            fn = _fn(tree, "decode_performance")
            for n in ast.walk(fn):
                if isinstance(n, ast.Subscript) and isinstance(n.value, ast.Name) and n.value.id == "performance_array" \
                        and isinstance(n.slice, ast.BinOp) and isinstance(n.slice.op, ast.Add):
                    v["DECODE_PARAMS"] = _str_list(n.slice.left)
            fn = _fn(tree, "to_matched_score")
            for n in fn.body:
                if isinstance(n, ast.Assign) and isinstance(n.targets[0], ast.Name) and n.targets[0].id == "fields":
                    v["FIELDS"] = [(e.elts[0].value, e.elts[1].value) for e in n.value.elts]
            for n in ast.walk(fn):
                if isinstance(n, ast.Assign) and isinstance(n.targets[0], ast.Name) and n.targets[0].id == "feature_functions" \
                        and isinstance(n.value, ast.List):
                    v["FEATURES"] = _str_list(n.value)
            if not (v["BASE_PARAMS"] and v["DECODE_PARAMS"] and v["FIELDS"] and v["FEATURES"]):
                raise Unexpected("a list literal was not found")
        attempt("list literals", lists)

        def defaults():
            out = []
            for f, names in ((pc.encode_performance, ("beat_normalization", "tempo_smooth", "return_u_onset_idx")),
                             (pc.decode_performance, ("beat_normalization", "snote_ids", "return_alignment")),
                             (pc.encode_tempo, ("beat_normalization", "tempo_smooth")),
                             (pc.decode_time, ("normalization",)),
                             (pc.to_matched_score, ("include_score_markings",)),
                             (pc.get_time_maps_from_alignment, ("remove_ornaments",)),
                             (pc.tempo_by_average, ("unique_onset_idxs", "input_onsets")),
                             (pc.tempo_by_derivative, ("unique_onset_idxs", "input_onsets")),
                             (pc.get_unique_onset_idxs, ("return_unique_onsets",)),
                             (G.monotonize_times, ("x",))):
                sig = inspect.signature(f).parameters
                for nm in names:
                    out.append(("%s.%s" % (f.__name__, nm), repr(sig[nm].default)))
            v["DEFAULTS"] = out
        attempt("keyword defaults", defaults)

    out = ["/- GENERATED by harness/translate_c18.py from the live partitura source (musicanalysis/performance_codec.py,",
           "   utils/generic.py).  Do not edit. -/", "namespace Gen", ""]
    w = out.append
    w("/-- keys of `TEMPO_NORMALIZATION` -/")
    w("def C18_NORMS : List String := %s" % _llist(_lstr(k) for k in v["NORMS"]))
    w("/-- `param_names` of every normalisation -/")
    w("def C18_PARAM_NAMES : List (String × List String) := %s" % _llist(
        "(%s, %s)" % (_lstr(k), _llist(_lstr(n) for n in ns)) for k, ns in v["PARAM_NAMES"]))
    w("/-- the `rescale` functions over the columns `param_names` (`2 ** column` = the column: see C18_EXP2_COLS) -/")
    w("def C18_rescale : String → List Rat → Option Rat")
    for k, n, e in v["RESCALE"]:
        w("  | %s, %s => some %s" % (_lstr(k), _llist("c%d" % i for i in range(n)), e))
    w("  | _, _ => none")
    w("/-- columns a `rescale` function reads through `2 ** ·` -/")
    w("def C18_EXP2_COLS : List (String × List String) := %s" % _llist(
        "(%s, %s)" % (_lstr(k), _llist(_lstr(n) for n in ns)) for k, ns in v["EXP2"]))
    w("/-- the `scale` functions: the columns computed for a beat period `b` of a curve with mean `m` and standard deviation `sd`")
    w("    (`np.log2(x)` = x: see C18_LOG2_FNS) -/")
    w("def C18_scaleRow : String → Rat → Rat → Rat → List Rat")
    for k, cols in v["SCALE"]:
        w("  | %s, sd, m, b => let _ := sd; let _ := m; %s" % (_lstr(k), _llist(cols)))
    w("  | _, _, _, _ => []")
    w("/-- scale functions that take `np.log2` of a column -/")
    w("def C18_LOG2_FNS : List (String × List String) := %s" % _llist(
        "(%s, %s)" % (_lstr(k), _llist(_lstr(n) for n in ns)) for k, ns in v["LOG2"]))
    w("")
    w("/-- `max(n[\"duration_sec\"], ·)` in to_matched_score -/")
    w("def C18_CLIP_DUR : Rat := %s" % _lrat(v["CLIP_DUR"]))
    w("/-- `(· * score_onsets).astype(int)` in decode_time, tempo_by_average, tempo_by_derivative -/")
    w("def C18_ONSET_QUANT : List (String × Rat) := %s" % _llist("(%s, %s)" % (_lstr(a), _lrat(b)) for a, b in v["ONSET_QUANT"]))
    w("/-- default `eps` of get_unique_onset_idxs -/")
    w("def C18_GROUP_EPS : Rat := %s" % _lrat(v["GROUP_EPS"]))
    w("/-- `first_order_derivative(onset_fun, input_onsets, dx=·)` and its weights -/")
    w("def C18_DERIV_DX : Rat := %s" % _lrat(v["DERIV_DX"]))
    w("def C18_DERIV_WEIGHTS : List Rat := %s" % _llist(_lrat(x) for x in v["DERIV_WEIGHTS"]))
    w("/-- `m_score[\"velocity\"] / ·` (encode_performance), `np.round(velocity * ·)`, `np.clip(velocities, ·, ·)`, `np.clip(pitches, ·, ·)` -/")
    w("def C18_VEL_ENC : Rat := %s" % _lrat(v["VEL_ENC"]))
    w("def C18_VEL_DEC : Rat := %s" % _lrat(v["VEL_DEC"]))
    w("def C18_VEL_CLIP : List Rat := %s" % _llist(_lrat(x) for x in v["VEL_CLIP"]))
    w("def C18_PITCH_CLIP : List Rat := %s" % _llist(_lrat(x) for x in v["PITCH_CLIP"]))
    w("/-- `last_time = np.max(onsets) + ·`; `[rtol, atol]` of `np.isclose` (numpy's defaults, none overridden) -/")
    w("def C18_LAST_STEP : Rat := %s" % _lrat(v["LAST_STEP"]))
    w("def C18_ISCLOSE : List Rat := %s" % _llist(_lrat(x) for x in v["ISCLOSE"]))
    w("/-- the label an alignment entry is compared with -/")
    w("def C18_MATCH_LABELS : List (String × String) := %s" % _llist("(%s, %s)" % (_lstr(a), _lstr(b)) for a, b in v["MATCH_LABELS"]))
    w("/-- the keys each function reads through `str(·)`; the dict look-ups of to_matched_score by id (the key as it is) -/")
    w("def C18_STR_IDS : List (String × List String) := %s" % _llist("(%s, %s)" % (_lstr(a), _llist(_lstr(x) for x in b)) for a, b in v["STR_IDS"]))
    w("def C18_ID_LOOKUPS : List (String × String) := %s" % _llist("(%s, %s)" % (_lstr(a), _lstr(b)) for a, b in v["ID_LOOKUPS"]))
    w("/-- `grace_mask = sd <= 0` in encode_articulation -/")
    w("def C18_GRACE_LE_ZERO : Bool := %s" % _lbool(v["GRACE_LE_ZERO"]))
    w("/-- `parameter_names` of encode_tempo; the columns decode_performance hands to decode_time -/")
    w("def C18_BASE_PARAMS : List String := %s" % _llist(_lstr(x) for x in v["BASE_PARAMS"]))
    w("def C18_DECODE_PARAMS : List String := %s" % _llist(_lstr(x) for x in v["DECODE_PARAMS"]))
    w("/-- `fields` of to_matched_score; the feature functions of `include_score_markings` -/")
    w("def C18_MATCHED_FIELDS : List (String × String) := %s" % _llist("(%s, %s)" % (_lstr(a), _lstr(b)) for a, b in v["FIELDS"]))
    w("def C18_MARKING_FEATURES : List String := %s" % _llist(_lstr(x) for x in v["FEATURES"]))
    w("/-- keyword defaults (`repr`) -/")
    w("def C18_DEFAULTS : List (String × String) := %s" % _llist("(%s, %s)" % (_lstr(a), _lstr(b)) for a, b in v["DEFAULTS"]))
    w("")
    w("def C18_OK : Bool := %s" % _lbool(not notes))
    w("def C18_NOTES : List String := %s" % _llist(_lstr(n) for n in notes))
    w("")
    w("end Gen")
    return "\n".join(out) + "\n"


GENERATORS = {"C18Lits.lean": gen_c18lits}

if __name__ == "__main__":
    print(gen_c18lits())
