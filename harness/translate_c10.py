"""Translator for C10: the documented defaults of the six maps, the rounding of the pickup rule and the layout of the
note-array columns derived from the maps, read off the LIVE code -> lean/PartituraModel/Gen/C10Tables.lean.

Everything is obtained by RUNNING the live functions on tiny probe parts (behaviour, not syntax: a refactoring that
keeps the behaviour regenerates the same file; a changed default / rounding / column layout regenerates a different one
and the theorems of Props/C10Source.lean that are stated over these constants stop building):

  C10_DEFAULT_TS              what time_signature_map answers on a part without time signature (beats, beat type, musical beats)
  C10_DEFAULT_KS              what key_signature_map answers on a part without key signature (fifths, mode code)
  C10_DEFAULT_CLEF            (sign code, line, octave_change) clef_map reports for a staff without clef
  C10_CLEF_MISSING            (line, octave_change) reported for a clef that carries neither
  C10_DEFAULT_MEASURE_NUMBER  measure_number_map on a part without measures
  C10_DEFAULT_METRICAL        metrical_position_map on a part without measures
  C10_DEFAULT_MEASURE_IS_SPAN measure_map on a part without measures answers (first_point.t, last_point.t)
  C10_EMPTY_ORIGIN            the first position at which the signature maps of a part WITHOUT time points answer
  C10_PICKUP_ROUNDING         (exact corrected start, start reported by measure_map) for pickups whose corrected start
                              falls exactly between two divisions (-5/2, -7/2): separates round-half-even from truncation,
                              floor, ceiling and round-half-away
  C10_NA_COLUMNS / C10_REST_COLUMNS            for each of the 8 combinations of (key_signature_map, time_signature_map,
                              metrical_position_map) handed to note_array_from_note_list / rest_array_from_rest_list: the
                              columns the maps add, in dtype order
  C10_NA_PART_COLUMNS / C10_REST_PART_COLUMNS  the same for the include_* flags of note_array_from_part / rest_array_from_part
  C10_ARG_SHAPES              (round 6) for each of the six maps (and metrical_position_map of a part without measures)
                              and each kind of argument - number (int, np.int64), 0-dimensional array, sequence (list,
                              tuple, 1-d array) -: one row or an array of rows

The generator never raises (the shared translator must keep working for the other properties): what cannot be read is
emitted as a neutral value, `C10_EXTRACTION_OK` becomes `false` with the reasons in `C10_EXTRACTION_NOTES`, and
`C10.tables_extracted` (Props/C10Source.lean) no longer builds.
"""
import itertools
import warnings
from fractions import Fraction


def _lstr(s):
    return '"' + "".join(ch if 32 <= ord(ch) < 127 and ch not in '"\\' else "\\u{%x}" % ord(ch) for ch in str(s)) + '"'


def _lint(i):
    i = int(i)
    return "(%d)" % i if i < 0 else "%d" % i


def _lrat(f):
    f = Fraction(f)
    return "((%d : Rat) / %d)" % (f.numerator, f.denominator)


def _lbool(b):
    return "true" if b else "false"


def _ints(v, n):
    """n whole numbers out of an array-like, or raise"""
    import numpy as np

    a = np.asarray(v, dtype=float).reshape(-1)
    if a.shape != (n,) or not all(x == x and float(x).is_integer() for x in a):
        raise ValueError("expected %d whole numbers, got %r" % (n, v))
    return [int(x) for x in a]


def _probe():
    notes = []
    res = {"ts": (0, 0, 0), "ks": (0, 0), "clef": (0, 0, 0), "clef_missing": (0, 0), "mn": 0, "mp": (0, 0),
           "span": False, "origin": 0, "round": [], "na": [], "rest": [], "na_part": [], "rest_part": [], "shapes": []}
    try:
        import numpy as np
        import partitura.score as S
        from partitura.utils.music import (note_array_from_note_list, rest_array_from_rest_list, note_array_from_part,
                                           rest_array_from_part)
    except Exception as e:  # pragma: no cover
        return res, ["import failed: %s" % e]

    def attempt(what, fn):
        try:
            with warnings.catch_warnings():
                warnings.simplefilter("ignore")
                with np.errstate(all="ignore"):
                    fn()
        except Exception as e:
            notes.append("%s: %s: %s" % (what, type(e).__name__, str(e)[:80]))

    # ---- a part with one note and one rest and nothing else: every map answers its documented default
    p = S.Part("probe", quarter_duration=4)
    p.add(S.Note("C", 4, 0, id="n0", voice=1), 3, 9)
    p.add(S.Rest(id="r0", voice=1), 5, 7)

    def same_everywhere(f, n):
        vals = {tuple(_ints(f(x), n)) for x in (3, 5, 9)}
        if len(vals) != 1:
            raise ValueError("default is not constant on the timeline: %r" % (vals,))
        return vals.pop()

    attempt("default time signature", lambda: res.__setitem__("ts", same_everywhere(p.time_signature_map, 3)))
    attempt("default key signature", lambda: res.__setitem__("ks", same_everywhere(p.key_signature_map, 2)))

    def clef_default():
        v = same_everywhere(p.clef_map, 4)
        if v[0] != 1:
            raise ValueError("default clef row does not carry its staff number: %r" % (v,))
        res["clef"] = v[1:]

    attempt("default clef", clef_default)
    attempt("default measure number", lambda: res.__setitem__("mn", same_everywhere(p.measure_number_map, 1)[0]))
    attempt("default metrical position", lambda: res.__setitem__("mp", same_everywhere(p.metrical_position_map, 2)))
    attempt("default measure", lambda: res.__setitem__("span", same_everywhere(p.measure_map, 2) == (3, 9)))

    def clef_missing():
        q = S.Part("probe", quarter_duration=4)
        q.add(S.Clef(1, "G", None, None), 0)
        q.add(S.Note("C", 4, 0, id="n0", voice=1, staff=1), 0, 4)
        v = _ints(q.clef_map(2), 4)
        res["clef_missing"] = (v[2], v[3])

    attempt("clef without line", clef_missing)

    def origin():
        q = S.Part("probe", quarter_duration=4)
        firsts = set()
        for f in (q.time_signature_map, q.key_signature_map):
            ok = [x for x in range(-3, 4) if not np.isnan(np.asarray(f(x), dtype=float)).any()]
            firsts.add(min(ok))
        if len(firsts) != 1:
            raise ValueError("the maps of an empty part start at %r" % (firsts,))
        res["origin"] = firsts.pop()

    attempt("empty part", origin)

    # ---- the rounding of the pickup rule: 3/8 at 3 divisions per quarter = 9/2 divisions per bar
    def rounding():
        out = []
        for end in (2, 1):
            q = S.Part("probe", quarter_duration=3)
            q.add(S.TimeSignature(3, 8), 0)
            q.add(S.Measure(1), 0, end)
            q.add(S.Measure(2), end, end + 9)
            q.add(S.Note("C", 4, 0, id="n0", voice=1), 0, end + 9)
            out.append((Fraction(end) - Fraction(9, 2), _ints(q.measure_map(0), 2)[0]))
        res["round"] = out

    attempt("pickup rounding", rounding)

    # ---- the columns the three maps add to a note / rest array
    def columns():
        maps = {"key_signature_map": p.key_signature_map, "time_signature_map": p.time_signature_map,
                "metrical_position_map": p.metrical_position_map}
        names = list(maps)
        incl = ["include_key_signature", "include_time_signature", "include_metrical_position"]
        for key, fn_list, fn_part, lst in (("na", note_array_from_note_list, note_array_from_part, [p.notes_tied, []]),
                                           ("rest", rest_array_from_rest_list, rest_array_from_part, [p.rests, []])):
            base = list(fn_list(lst[0]).dtype.names)
            base_part = list(fn_part(p).dtype.names)
            for flags in itertools.product([False, True], repeat=3):
                cols = None
                for l in lst:  # the layout must not depend on the list being empty
                    got = list(fn_list(l, **{n: maps[n] for n, f in zip(names, flags) if f}).dtype.names)
                    if [c for c in got if c in base] != base:
                        raise ValueError("the maps reorder / drop the other columns: %r" % (got,))
                    extra = [c for c in got if c not in base]
                    if cols is not None and extra != cols:
                        raise ValueError("layout depends on the list: %r / %r" % (cols, extra))
                    cols = extra
                res[key].append((flags, cols))
                got = list(fn_part(p, **{n: f for n, f in zip(incl, flags)}).dtype.names)
                if [c for c in got if c in base_part] != base_part:
                    raise ValueError("the flags reorder / drop the other columns: %r" % (got,))
                res[key + "_part"].append((flags, [c for c in got if c not in base_part]))

    attempt("note-array columns", columns)

    # ---- round 6: ONE row or an ARRAY of rows, for each map and each kind of argument (Model/StepMapCalls.lean: the
    #      wrapper's ndim test, scipy, the collator of clef_map, the `isinstance(input, Iterable)` test of
    #      metrical_position_map - true for a 0-dimensional numpy array)
    def arg_shapes():
        q = S.Part("probe", quarter_duration=4)
        q.add(S.TimeSignature(3, 4), 0)
        q.add(S.Measure(1), 0, 12)
        q.add(S.Measure(2), 12, 24)
        q.add(S.Note("C", 4, 0, id="n0", voice=1, staff=1), 0, 24)
        row_ndim = {"time_signature_map": 1, "key_signature_map": 1, "clef_map": 2, "measure_map": 1,
                    "measure_number_map": 0, "metrical_position_map": 1}
        kinds = [("scalar", [lambda: 5, lambda: np.int64(5)]), ("zerod", [lambda: np.array(5)]),
                 ("seq", [lambda: [5, 7], lambda: (5, 7), lambda: np.array([5, 7])])]
        out = []
        for label, part, names in (("", q, list(row_ndim)), ("/no_measures", p, ["metrical_position_map"])):
            for nm in names:
                row = []
                for kind, makers in kinds:
                    seen = set()
                    for mk in makers:
                        r = getattr(part, nm)(mk())
                        nd = row_ndim[nm] if isinstance(r, tuple) else np.asarray(r).ndim
                        if nd not in (row_ndim[nm], row_ndim[nm] + 1):
                            raise ValueError("%s(%s argument): result of %d dimensions" % (nm, kind, nd))
                        seen.add(nd == row_ndim[nm])
                    if len(seen) != 1:
                        raise ValueError("%s: arguments of kind %s are not treated alike" % (nm, kind))
                    row.append((kind, seen.pop()))
                out.append((nm + label, row))
        res["shapes"] = out

    attempt("argument kinds", arg_shapes)
    for key in ("na", "rest", "na_part", "rest_part"):
        if len(res[key]) != 8:
            res[key] = []
    return res, notes


def gen_c10():
    try:
        res, notes = _probe()
    except Exception as e:  # never raise
        res, notes = None, ["probe failed: %s: %s" % (type(e).__name__, e)]
    if res is None:
        res = {"ts": (0, 0, 0), "ks": (0, 0), "clef": (0, 0, 0), "clef_missing": (0, 0), "mn": 0, "mp": (0, 0),
               "span": False, "origin": 0, "round": [], "na": [], "rest": [], "na_part": [], "rest_part": [], "shapes": []}
    out = []
    w = out.append
    w("/- GENERATED by harness/translate_c10.py from the live partitura source - do not edit. -/")
    w("namespace Gen\n")
    w("def C10_EXTRACTION_OK : Bool := %s" % _lbool(not notes))
    w("def C10_EXTRACTION_NOTES : List String := [%s]\n" % ", ".join(_lstr(n) for n in notes))
    ts = [max(0, v) for v in res["ts"]]
    w("/-- time_signature_map on a part without time signature: (beats, beat_type, musical_beats) -/")
    w("def C10_DEFAULT_TS : Nat × Nat × Nat := (%d, %d, %d)" % tuple(ts))
    w("/-- key_signature_map on a part without key signature: (fifths, mode code) -/")
    w("def C10_DEFAULT_KS : Int × Int := (%s, %s)" % tuple(_lint(v) for v in res["ks"]))
    w("/-- clef_map for a staff without clef: (sign code, line, octave_change) -/")
    w("def C10_DEFAULT_CLEF : Int × Int × Int := (%s, %s, %s)" % tuple(_lint(v) for v in res["clef"]))
    w("/-- (line, octave_change) reported for a clef that carries neither -/")
    w("def C10_CLEF_MISSING : Int × Int := (%s, %s)" % tuple(_lint(v) for v in res["clef_missing"]))
    w("/-- measure_number_map on a part without measures -/")
    w("def C10_DEFAULT_MEASURE_NUMBER : Int := %s" % _lint(res["mn"]))
    w("/-- metrical_position_map on a part without measures -/")
    w("def C10_DEFAULT_METRICAL : Int × Int := (%s, %s)" % tuple(_lint(v) for v in res["mp"]))
    w("/-- measure_map on a part without measures answers (first_point.t, last_point.t) -/")
    w("def C10_DEFAULT_MEASURE_IS_SPAN : Bool := %s" % _lbool(res["span"]))
    w("/-- the first position at which the signature maps of a part without time points answer -/")
    w("def C10_EMPTY_ORIGIN : Int := %s" % _lint(res["origin"]))
    w("/-- (exact pickup-corrected start, start reported by measure_map) at rounding ties -/")
    w("def C10_PICKUP_ROUNDING : List (Rat × Int) := [%s]\n" % ", ".join(
        "(%s, %s)" % (_lrat(a), _lint(b)) for a, b in res["round"]))
    for key, name in (("na", "C10_NA_COLUMNS"), ("rest", "C10_REST_COLUMNS"), ("na_part", "C10_NA_PART_COLUMNS"),
                      ("rest_part", "C10_REST_PART_COLUMNS")):
        w("def %s : List ((Bool × Bool × Bool) × List String) := [" % name)
        w(",\n".join("  ((%s, %s, %s), [%s])" % (_lbool(f[0]), _lbool(f[1]), _lbool(f[2]), ", ".join(_lstr(c) for c in cols))
                     for f, cols in res[key]))
        w("]\n")
    w("/-- for each map (and `metrical_position_map` of a part without measures) and each kind of argument - a number,")
    w("    a 0-dimensional array, a sequence - : does the call answer with ONE row (true) or an ARRAY of rows (false) -/")
    w("def C10_ARG_SHAPES : List (String × List (String × Bool)) := [")
    w(",\n".join("  (%s, [%s])" % (_lstr(nm), ", ".join("(%s, %s)" % (_lstr(k), _lbool(b)) for k, b in row))
                 for nm, row in res.get("shapes", [])))
    w("]\n")
    w("end Gen")
    return "\n".join(out) + "\n"


GENERATORS = {"C10Tables.lean": gen_c10}

if __name__ == "__main__":
    print(gen_c10())
