#!/bin/bash
# coordinator helper (round 5): like seedrun.sh but copies the pristine snapshot $BASE (default /tmp/verif-base,
# an rsync of the committed /verif with its built .lake) so that builders editing /verif do not disturb the run.
#   harness/seedrun5.sh <worktree> <Cxx> [tier]
set -u
WT="$1"; ID="$2"; TIER="${3:-quick}"; BASE="${BASE:-/tmp/verif-base}"
COPY="/tmp/vs-$ID-$$"
rsync -a --exclude replays --exclude .git "$BASE/" "$COPY/"
( cd "$COPY" && VERIF_REPO="$WT" ./check "$ID" --tier "$TIER" ) 2>&1 | tail -5 | sed "s#$COPY#/verif#g"
mkdir -p /verif/replays
for f in "$COPY"/replays/*.json; do [ -e "$f" ] && cp "$f" /verif/replays/; done
rm -rf "$COPY"
