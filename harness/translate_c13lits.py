"""Translator for C13 (round 5): the small literals of the frame arithmetic of `_make_pianoroll` and of the storage of
`pianoroll_to_notearray`, read off the LIVE functions -> lean/PartituraModel/Gen/C13Lits.lean.

Every value is obtained by calling the live function on a probe input chosen so that exactly one literal shows in the
result (nothing depends on local names, on the way a literal is written, or on loops vs. vectorised code):

* C13L_MIN_FRAMES     `np.clip(..., a_min=1)`: the filled frames of one note of duration 0
* C13L_SEP_ON / _OFF  `pr_offset - (1 if note_separation else 0)`: frames a five-frame note loses with / without separation
* C13L_MIN_SHOWN      `np.maximum(pr_onset + 1, ...)`: the filled frames of a one-frame note under note separation
* C13L_HALF_EVEN      `np.round`: frames of onsets 1/2, 3/2, 5/2, -1/2, -3/2 at time_div 1 are 0, 2, 2, 0, -2 (shifted)
* C13L_TRUNC_DIV      `int(time_div)`: the resolution used for time_div = 2.9 and -2.9 (truncation toward zero)
* C13L_DEC_PREC/EMIN/EMAX  the floating-point format of the decoder's time columns (significand bits, exponent of the
                      least subnormal, exponent bound: every finite number is below 2^EMAX)
* C13L_DEC_INT_BITS   the width of its pitch / velocity columns
* C13L_DEC_TRUNC      `int(pianoroll[note, ts])`: the velocities decoded from cells 2.9 and -2.9 (truncation toward zero)
* C13L_DEC_ZERO_ACTIVE  whether a cell 0.5 (non-zero, integer part 0) makes a note

The generator never raises; what cannot be read is emitted as a neutral value, `C13L_OK` becomes false with the reasons
in `C13L_NOTES`, and `C13.lits_extracted` (Props/C13Raster.lean) no longer builds.
"""
import warnings


def _q(f, *a, **kw):
    with warnings.catch_warnings():
        warnings.simplefilter("ignore")
        return f(*a, **kw)


def _arr(rows, np):
    return np.array(rows, dtype=[("pitch", "i4"), ("onset_beat", "f8"), ("duration_beat", "f8")])


def _lint(i):
    i = int(i)
    return "(%d)" % i if i < 0 else "%d" % i


def _lstr(s):
    return '"' + "".join(ch if 32 <= ord(ch) < 127 and ch not in '"\\' else " " for ch in str(s)) + '"'


def gen_c13lits():
    notes = []
    v = dict(MIN_FRAMES=0, SEP_ON=0, SEP_OFF=0, MIN_SHOWN=0, HALF_EVEN=False, TRUNC_DIV=False, DEC_PREC=0, DEC_EMIN=0, DEC_EMAX=0,
             DEC_INT_BITS=0, DEC_TRUNC=False, DEC_ZERO_ACTIVE=False)
    try:
        import numpy as np
        import partitura.utils.music as M

        def nnz(rows, **kw):
            kw.setdefault("time_div", 1)
            kw.setdefault("remove_silence", False)
            return int(_q(M.compute_pianoroll, _arr(rows, np), **kw).toarray()[60].astype(bool).sum())

        try:
            v["MIN_FRAMES"] = nnz([(60, 0, 0)])
            v["SEP_ON"] = 5 - nnz([(60, 0, 5)], note_separation=True)
            v["SEP_OFF"] = 5 - nnz([(60, 0, 5)], note_separation=False)
            v["MIN_SHOWN"] = nnz([(60, 0, 1)], note_separation=True)
        except Exception as e:
            notes.append("frame literals unreadable (%s: %s)" % (type(e).__name__, e))
        try:
            # onsets k + 1/2 (shifted by 2 so that the negative ones stay inside the roll: min_time = -3/2 - 1/2)
            on = [0.5, 1.5, 2.5, -0.5, -1.5, -2.0]
            pr, idx = _q(M.compute_pianoroll, _arr([(60, t, 1) for t in on], np), time_div=1, remove_silence=False,
                         return_idxs=True)
            fr = [int(r[1]) - int(idx[-1][1]) - 2 for r in idx[:-1]]
            # relative to min_time = -2: round(t + 2) - 2
            v["HALF_EVEN"] = fr == [0, 2, 2, 0, -2]
            if not v["HALF_EVEN"]:
                notes.append("np.round of the onset frames is not round-half-to-even: %r" % (fr,))
        except Exception as e:
            notes.append("rounding mode unreadable (%s: %s)" % (type(e).__name__, e))
        try:
            a = _q(M.compute_pianoroll, _arr([(60, 0, 3)], np), time_div=2.9, remove_silence=False).shape[1]
            v["TRUNC_DIV"] = a == 6
            if not v["TRUNC_DIV"]:
                notes.append("time_div=2.9 gives %d columns for three beats (int() truncation expected: 6)" % a)
        except Exception as e:
            notes.append("int(time_div) unreadable (%s: %s)" % (type(e).__name__, e))
        try:
            roll = np.zeros((128, 4))
            roll[60, 0] = 2.9
            roll[61, 1] = -2.9
            roll[62, 2] = 0.5
            na = _q(M.pianoroll_to_notearray, roll, 1, "sec")
            fl = na.dtype["onset_sec"]
            notes_ok = fl.kind == "f" and na.dtype["duration_sec"] == fl
            if not notes_ok:
                notes.append("decoder time columns are %r / %r" % (fl, na.dtype["duration_sec"]))
            else:
                fi = np.finfo(fl)
                v["DEC_PREC"] = int(fi.nmant) + 1
                v["DEC_EMIN"] = int(fi.minexp) - int(fi.nmant)
                v["DEC_EMAX"] = int(fi.maxexp)
            it = na.dtype["pitch"]
            if it.kind == "i" and na.dtype["velocity"] == it:
                v["DEC_INT_BITS"] = 8 * it.itemsize
            else:
                notes.append("decoder pitch / velocity columns are %r / %r" % (it, na.dtype["velocity"]))
            got = {int(r["pitch"]): int(r["velocity"]) for r in na}
            v["DEC_TRUNC"] = got.get(60) == 2 and got.get(61) == -2
            v["DEC_ZERO_ACTIVE"] = got.get(62) == 0
            if not v["DEC_TRUNC"]:
                notes.append("cells 2.9 / -2.9 decode to velocities %r / %r" % (got.get(60), got.get(61)))
            if not v["DEC_ZERO_ACTIVE"]:
                notes.append("a cell 0.5 decodes to %r (a note of velocity 0 expected)" % (got.get(62),))
        except Exception as e:
            notes.append("decoder storage unreadable (%s: %s)" % (type(e).__name__, e))
    except Exception as e:  # pragma: no cover
        notes.append("partitura not importable (%s: %s)" % (type(e).__name__, e))
    out = ["/- GENERATED by harness/translate_c13lits.py from the live partitura source (utils/music.py), by probing",
           "   `compute_pianoroll` / `pianoroll_to_notearray`.  Do not edit. -/", "namespace Gen", ""]
    w = out.append
    w("/-- `np.clip(..., a_min=·)`: the least number of frames of a note -/")
    w("def C13L_MIN_FRAMES : Int := %s" % _lint(v["MIN_FRAMES"]))
    w("/-- `pr_offset - (· if note_separation else ·)` -/")
    w("def C13L_SEP_ON : Int := %s" % _lint(v["SEP_ON"]))
    w("def C13L_SEP_OFF : Int := %s" % _lint(v["SEP_OFF"]))
    w("/-- `np.maximum(pr_onset + ·, ...)`: the least number of frames shown -/")
    w("def C13L_MIN_SHOWN : Int := %s" % _lint(v["MIN_SHOWN"]))
    w("/-- the onset frames are rounded half to even -/")
    w("def C13L_HALF_EVEN : Bool := %s" % ("true" if v["HALF_EVEN"] else "false"))
    w("/-- `int(time_div)` truncates toward zero -/")
    w("def C13L_TRUNC_DIV : Bool := %s" % ("true" if v["TRUNC_DIV"] else "false"))
    w("/-- the decoder's time columns: significand bits and exponent of the least subnormal (binary32: 24, -149) -/")
    w("def C13L_DEC_PREC : Nat := %d" % v["DEC_PREC"])
    w("def C13L_DEC_EMIN : Int := %s" % _lint(v["DEC_EMIN"]))
    w("def C13L_DEC_EMAX : Int := %s" % _lint(v["DEC_EMAX"]))
    w("/-- width of the decoder's pitch / velocity columns -/")
    w("def C13L_DEC_INT_BITS : Nat := %d" % v["DEC_INT_BITS"])
    w("/-- `int(pianoroll[note, ts])` truncates toward zero; a non-zero cell with integer part 0 makes a note -/")
    w("def C13L_DEC_TRUNC : Bool := %s" % ("true" if v["DEC_TRUNC"] else "false"))
    w("def C13L_DEC_ZERO_ACTIVE : Bool := %s" % ("true" if v["DEC_ZERO_ACTIVE"] else "false"))
    w("")
    w("def C13L_OK : Bool := %s" % ("true" if not notes else "false"))
    w("def C13L_NOTES : List String := [%s]" % ", ".join(_lstr(n) for n in notes))
    w("")
    w("end Gen")
    return "\n".join(out) + "\n"


GENERATORS = {"C13Lits.lean": gen_c13lits}

if __name__ == "__main__":
    print(gen_c13lits())
