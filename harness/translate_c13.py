"""Translator for C13: every constant the piano-roll model needs, read from the live source
-> lean/PartituraModel/Gen/C13Tables.lean.

* `TIME_UNITS`                          the live list of utils/globals.py
* keyword defaults                      `inspect.signature` of compute_pianoroll, compute_pitch_class_pianoroll,
                                        pianoroll_to_notearray
* keyword forwarding / forced values    the call `_make_pianoroll(...)` inside compute_pianoroll and the call
                                        `compute_pianoroll(...)` inside compute_pitch_class_pianoroll (ast, no execution)
* literals inside function bodies       drum channel, default pitch range, piano-range slice, decoder shapes,
                                        pitch-class fold constants (ast, no execution)
* two finite function tables            get_time_units_from_note_array on every subset of the `onset_<unit>` fields,
                                        and the `time_div="auto"` default of every unit (tabulated by calling the live
                                        functions on their whole finite domain)

The generator never raises (the shared translator must keep working for the other properties): whatever
cannot be read is emitted as a neutral value and `C13_EXTRACTION_OK` becomes `false` with the reasons in
`C13_EXTRACTION_NOTES`; `C13.tables_extracted` (Props/C13Args.lean) then no longer builds.
"""
import ast
import inspect
import itertools
import textwrap
import warnings
from fractions import Fraction


def _lstr(s):
    out = ['"']
    for ch in str(s):
        if ch == '"':
            out.append('\\"')
        elif ch == "\\":
            out.append("\\\\")
        elif ord(ch) < 32 or ord(ch) > 126:
            out.append("\\u{%x}" % ord(ch))
        else:
            out.append(ch)
    out.append('"')
    return "".join(out)


def _lint(i):
    i = int(i)
    return "(%d)" % i if i < 0 else "%d" % i


def _lrat(x):
    f = Fraction(x) if not isinstance(x, float) else Fraction(*x.as_integer_ratio())
    if f.denominator == 1:
        return "(%d : Rat)" % f.numerator
    return "((%d : Rat) / %d)" % (f.numerator, f.denominator)


def _lbool(b):
    return "true" if b else "false"


def _llist(items):
    return "[" + ", ".join(items) + "]"


def _const(node):
    """python constant of an ast node (handles -1), else raises"""
    return ast.literal_eval(node)


class _Notes(list):
    def need(self, cond, what):
        if not cond:
            self.append(what)
        return cond


def _tree(fn):
    return ast.parse(textwrap.dedent(inspect.getsource(fn)))


def _calls(tree, name):
    out = []
    for node in ast.walk(tree):
        if isinstance(node, ast.Call):
            f = node.func
            if (isinstance(f, ast.Name) and f.id == name) or (isinstance(f, ast.Attribute) and f.attr == name):
                out.append(node)
    return out


def _kw_split(call):
    """(forwarded [(kw, name)], forced [(kw, constant)], other [kw])"""
    fwd, forced, other = [], [], []
    for k in call.keywords:
        if k.arg is None:
            other.append("**")
        elif isinstance(k.value, ast.Name):
            fwd.append((k.arg, k.value.id))
        else:
            try:
                forced.append((k.arg, _const(k.value)))
            except Exception:
                other.append(k.arg)
    return fwd, forced, other


def _assigned_constants(tree, name):
    out = []
    for node in ast.walk(tree):
        if isinstance(node, ast.Assign) and len(node.targets) == 1:
            t = node.targets[0]
            if isinstance(t, ast.Name) and t.id == name:
                try:
                    out.append(_const(node.value))
                except Exception:
                    pass
    return out


def _is_sub(node, base, key):
    """`base[key]` with a constant key (base by name) or `base.shape[key]`"""
    if not isinstance(node, ast.Subscript):
        return False
    try:
        k = _const(node.slice)
    except Exception:
        return False
    if k != key:
        return False
    v = node.value
    if isinstance(v, ast.Name):
        return v.id == base
    if isinstance(v, ast.Attribute) and isinstance(v.value, ast.Name):
        return v.value.id + "." + v.attr == base
    return False


def _compares(tree, base, key):
    """[(op class name, constant)] of comparisons `base[key] <op> constant`"""
    out = []
    for node in ast.walk(tree):
        if isinstance(node, ast.Compare) and len(node.ops) == 1 and _is_sub(node.left, base, key):
            try:
                out.append((type(node.ops[0]).__name__, _const(node.comparators[0])))
            except Exception:
                pass
    return out


def _defaults(fn, notes, spec):
    """spec: [(param, kind)] with kind in str|bool|int|rat|optrat|autodiv; returns {param: lean text}"""
    sig = inspect.signature(fn)
    out = {}
    for name, kind in spec:
        p = sig.parameters.get(name)
        ok = p is not None and p.default is not inspect.Parameter.empty
        v = p.default if ok else None
        neutral = {"str": '""', "bool": "false", "int": "0", "rat": "(0 : Rat)", "optrat": "none", "autodiv": "none"}[kind]
        txt = neutral
        try:
            if not ok:
                raise ValueError("no default")
            if kind == "str":
                if not isinstance(v, str):
                    raise ValueError(v)
                txt = _lstr(v)
            elif kind == "bool":
                if not isinstance(v, bool):
                    raise ValueError(v)
                txt = _lbool(v)
            elif kind == "int":
                if isinstance(v, bool) or not isinstance(v, int):
                    raise ValueError(v)
                txt = _lint(v)
            elif kind == "rat":
                if isinstance(v, bool) or not isinstance(v, (int, float)):
                    raise ValueError(v)
                txt = _lrat(v)
            elif kind == "optrat":
                if v is None:
                    txt = "none"
                elif isinstance(v, bool) or not isinstance(v, (int, float)):
                    raise ValueError(v)
                else:
                    txt = "some " + _lrat(v)
            elif kind == "autodiv":  # "auto" -> none, a number -> some
                if v == "auto":
                    txt = "none"
                elif isinstance(v, bool) or not isinstance(v, (int, float)):
                    raise ValueError(v)
                else:
                    txt = "some " + _lrat(v)
        except Exception as e:
            notes.append("default of %s.%s unreadable (%s)" % (fn.__name__, name, e))
        out[name] = txt
    return out


PR_SPEC = [("time_unit", "str"), ("time_div", "autodiv"), ("onset_only", "bool"), ("note_separation", "bool"),
           ("pitch_margin", "int"), ("time_margin", "rat"), ("return_idxs", "bool"), ("piano_range", "bool"),
           ("remove_drums", "bool"), ("remove_silence", "bool"), ("end_time", "optrat"), ("binary", "bool")]
PC_SPEC = [("normalize", "bool"), ("time_unit", "str"), ("time_div", "autodiv"), ("onset_only", "bool"),
           ("note_separation", "bool"), ("time_margin", "rat"), ("return_idxs", "bool"), ("remove_silence", "bool"),
           ("end_time", "optrat"), ("binary", "bool")]
DEC_SPEC = [("time_div", "rat"), ("time_unit", "str")]
LEAN_TYPE = {"str": "String", "bool": "Bool", "int": "Int", "rat": "Rat", "optrat": "Option Rat", "autodiv": "Option Rat"}


def _probe_auto_units(M, units, notes):
    """get_time_units_from_note_array on every subset of the onset/duration fields"""
    import numpy as np

    rows = []
    for r in range(len(units) + 1):
        for sub in itertools.combinations(units, r):
            dt = [("pitch", "i4")]
            for u in sub:
                dt += [("onset_" + u, "f4"), ("duration_" + u, "f4")]
            arr = np.zeros(1, dtype=dt)
            try:
                res = M.get_time_units_from_note_array(arr)
            except Exception:
                res = None
            val = None
            if res is not None:
                try:
                    on, du = res
                    if on.startswith("onset_") and du == "duration_" + on[len("onset_"):]:
                        val = on[len("onset_"):]
                    else:
                        notes.append("get_time_units_from_note_array%r returned %r" % (sub, res))
                except Exception:
                    val = None
            rows.append((list(sub), val))
    return rows


def _probe_auto_div(M, units, notes):
    """the `time_div="auto"` default per unit: one note of duration 2 has 2 * time_div frames"""
    import numpy as np

    out = []
    for u in units:
        arr = np.zeros(1, dtype=[("pitch", "i4"), ("onset_" + u, "f4"), ("duration_" + u, "f4")])
        arr["pitch"] = 60
        arr["duration_" + u] = 2
        try:
            with warnings.catch_warnings():
                warnings.simplefilter("ignore")
                pr = M.compute_pianoroll(arr, time_unit=u, time_div="auto", remove_silence=False)
            n = int(pr.shape[1])
            if n % 2 or n < 2:
                notes.append("auto time_div of %s not readable from %d frames" % (u, n))
                out.append((u, None))
            else:
                out.append((u, n // 2))
        except Exception:
            out.append((u, None))
    return out


def _probe_layouts(M, units, notes):
    """the note-array layout `ensure_notearray` produces per kind of input: which onset_<unit>/duration_<unit>
    pairs (dtype order), whether velocity / channel columns exist; None = the input is rejected"""
    import numpy as np
    import partitura.score as S
    import partitura.performance as P

    def part():
        p = S.Part("P0", quarter_duration=4)
        p.add(S.TimeSignature(4, 4), 0)
        p.add(S.Note(step="C", octave=4, alter=None, voice=1, id="n0"), 0, 4)
        return p

    def ppart():
        return P.PerformedPart([dict(id="n0", midi_pitch=60, note_on=0.0, note_off=1.0, velocity=64, track=0, channel=0)],
                               id="PP0")

    def group():
        g = S.PartGroup(group_name="g")
        g.children = [part()]
        return g

    makers = [
        ("part", part),
        ("partgroup", group),
        ("score", lambda: S.Score(partlist=[part()], id="s")),
        ("partlist", lambda: [part()]),
        ("performedpart", ppart),
        ("performance", lambda: P.Performance(performedparts=[ppart()], id="p")),
        ("performedpartlist", lambda: [ppart()]),
        ("emptylist", lambda: []),
        ("plainarray", lambda: np.zeros((1, 4))),
        ("other", lambda: "notes"),
        ("none", lambda: None),
    ]
    out = []
    for kind, mk in makers:
        try:
            obj = mk()
        except Exception as e:
            notes.append("cannot build a minimal %s (%s)" % (kind, e))
            out.append((kind, None))
            continue
        try:
            with warnings.catch_warnings():
                warnings.simplefilter("ignore")
                na = M.ensure_notearray(obj)
            names = list(na.dtype.names)
            us = [n[len("onset_"):] for n in names if n.startswith("onset_")]
            if any("duration_" + u not in names for u in us) or "pitch" not in names:
                notes.append("note array of a %s lacks pitch or a duration column (%r)" % (kind, names))
            out.append((kind, (us, "velocity" in names, "channel" in names)))
        except Exception:
            out.append((kind, None))
    return out


def gen_c13():
    notes = _Notes()
    out = []
    w = out.append
    w("/- GENERATED by harness/translate_c13.py from the live partitura source (utils/globals.py, utils/music.py).")
    w("   Do not edit. -/")
    w("namespace Gen\n")
    units = []
    auto_units = []
    auto_div = []
    layouts = []
    prd = {n: None for n, _ in PR_SPEC}
    pcd = {n: None for n, _ in PC_SPEC}
    decd = {n: None for n, _ in DEC_SPEC}
    mk_fwd, mk_forced, pc_fwd, pc_forced = [], [], [], []
    mk_params = []
    drum = 0
    lowest = highest = 0
    sl_lo = sl_hi = start_in = start_out = 0
    dec_full = dec_piano = dec_init0 = dec_init1 = 0
    pc_rows = pc_span = pc_step = pc_mod = 0
    try:
        import partitura.utils.globals as G
        import partitura.utils.music as M

        units = [str(u) for u in G.TIME_UNITS]
        notes.need(M.TIME_UNITS is G.TIME_UNITS or list(M.TIME_UNITS) == units, "music.TIME_UNITS is not globals.TIME_UNITS")
        auto_units = _probe_auto_units(M, units, notes)
        auto_div = _probe_auto_div(M, units, notes)
        layouts = _probe_layouts(M, units, notes)
        prd = _defaults(M.compute_pianoroll, notes, PR_SPEC)
        pcd = _defaults(M.compute_pitch_class_pianoroll, notes, PC_SPEC)
        decd = _defaults(M.pianoroll_to_notearray, notes, DEC_SPEC)

        t_pr = _tree(M.compute_pianoroll)
        t_mk = _tree(M._make_pianoroll)
        t_pc = _tree(M.compute_pitch_class_pianoroll)
        t_dec = _tree(M.pianoroll_to_notearray)

        # compute_pianoroll -> _make_pianoroll
        calls = _calls(t_pr, "_make_pianoroll")
        if notes.need(len(calls) == 1 and not calls[0].args, "compute_pianoroll: expected one keyword-only call of _make_pianoroll"):
            mk_fwd, mk_forced, other = _kw_split(calls[0])
            notes.need(not other, "compute_pianoroll: unreadable keywords %r" % (other,))
        mk_params = [p for p in inspect.signature(M._make_pianoroll).parameters]
        # compute_pitch_class_pianoroll -> compute_pianoroll
        calls = _calls(t_pc, "compute_pianoroll")
        if notes.need(len(calls) == 1 and not calls[0].args, "compute_pitch_class_pianoroll: expected one keyword-only call of compute_pianoroll"):
            pc_fwd, pc_forced, other = _kw_split(calls[0])
            notes.need(not other, "compute_pitch_class_pianoroll: unreadable keywords %r" % (other,))

        # drum channel
        cmp = _compares(t_pr, "note_array", "channel")
        if notes.need(len(cmp) == 1 and cmp[0][0] == "NotEq" and isinstance(cmp[0][1], int),
                      "compute_pianoroll: expected one comparison note_array['channel'] != <int>, found %r" % (cmp,)):
            drum = cmp[0][1]
        # default pitch range
        lo = _assigned_constants(t_mk, "lowest_pitch")
        hi = _assigned_constants(t_mk, "highest_pitch")
        if notes.need(len(lo) == 1 and len(hi) == 1, "_make_pianoroll: default pitch range not found (%r, %r)" % (lo, hi)):
            lowest, highest = lo[0], hi[0]
        # piano-range slice and index offset
        sls = []
        for node in ast.walk(t_mk):
            if isinstance(node, ast.Subscript) and isinstance(node.value, ast.Name) and node.value.id == "pianoroll":
                s = node.slice
                if isinstance(s, ast.Tuple) and s.elts and isinstance(s.elts[0], ast.Slice):
                    try:
                        full = isinstance(s.elts[1], ast.Slice) and s.elts[1].lower is None and s.elts[1].upper is None \
                            and s.elts[1].step is None and s.elts[0].step is None
                        sls.append((_const(s.elts[0].lower), _const(s.elts[0].upper), full))
                    except Exception:
                        sls.append(None)
        if notes.need(len(sls) == 1 and sls[0] is not None and sls[0][2], "_make_pianoroll: piano-range slice not found (%r)" % (sls,)):
            sl_lo, sl_hi = sls[0][0], sls[0][1]
        st = _assigned_constants(t_mk, "pr_idx_pitch_start")
        if notes.need(len(st) == 2, "_make_pianoroll: pr_idx_pitch_start assignments %r" % (st,)):
            start_out, start_in = st[0], st[1]
        # decoder
        cmp = _compares(t_dec, "pianoroll.shape", 0)
        ini = _assigned_constants(t_dec, "init_pitch")
        if notes.need(sorted(c[0] for c in cmp) == ["Eq", "NotEq"] and len(ini) == 2,
                      "pianoroll_to_notearray: shape tests %r / init_pitch %r" % (cmp, ini)):
            dec_full = [c[1] for c in cmp if c[0] == "NotEq"][0]
            dec_piano = [c[1] for c in cmp if c[0] == "Eq"][0]
            dec_init0, dec_init1 = ini
        # pitch-class fold
        zs = [c for c in _calls(t_pc, "zeros")]
        rng = [c for c in _calls(t_pc, "range")]
        md = [c for c in _calls(t_pc, "mod")]
        try:
            pc_rows = _const(zs[0].args[0].elts[0])
            div = [n for n in ast.walk(rng[0]) if isinstance(n, ast.BinOp) and isinstance(n.op, ast.Div)]
            pc_span, pc_step = _const(div[0].left), _const(div[0].right)
            pc_mod = _const(md[0].args[1])
            steps = set()
            for node in ast.walk(t_pc):
                if isinstance(node, ast.Slice) and node.lower is not None and node.upper is not None:
                    for side in (node.lower, node.upper):
                        for b in ast.walk(side):
                            if isinstance(b, ast.BinOp) and isinstance(b.op, ast.Mult):
                                steps.add(_const(b.right))
            notes.need(len(zs) == 1 and len(rng) == 1 and len(md) == 1 and len(div) == 1 and steps == {pc_step},
                       "compute_pitch_class_pianoroll: fold constants not uniform (%r)" % (sorted(steps),))
        except Exception as e:
            notes.append("compute_pitch_class_pianoroll: fold constants unreadable (%s)" % (e,))
    except Exception as e:  # never take the shared translator down
        notes.append("extraction failed: %s: %s" % (type(e).__name__, e))

    w("/-- `TIME_UNITS` of utils/globals.py -/")
    w("def C13_TIME_UNITS : List String := %s\n" % _llist(_lstr(u) for u in units))
    w("/-- `get_time_units_from_note_array` tabulated on every subset of the `onset_<unit>` fields")
    w("    (subset in `TIME_UNITS` order; `none` = the call raises or returns no pair) -/")
    w("def C13_AUTO_UNITS : List (List String × Option String) := [")
    w(",\n".join("  (%s, %s)" % (_llist(_lstr(u) for u in sub), "none" if v is None else "some " + _lstr(v))
                 for sub, v in auto_units))
    w("]\n")
    w("/-- the frames per time unit chosen by `time_div=\"auto\"`, per unit (`none` = the call raises) -/")
    w("def C13_AUTO_DIV : List (String × Option Int) := %s\n" % _llist(
        "(%s, %s)" % (_lstr(u), "none" if v is None else "some " + _lint(v)) for u, v in auto_div))
    w("/-- `ensure_notearray` per kind of input (a structured array is returned as it is): the time units that have")
    w("    onset/duration columns (dtype order), velocity column?, channel column?; `none` = rejected -/")
    w("def C13_LAYOUTS : List (String × Option (List String × Bool × Bool)) := [")
    w(",\n".join("  (%s, %s)" % (_lstr(k), "none" if v is None else "some (%s, %s, %s)" % (
        _llist(_lstr(u) for u in v[0]), _lbool(v[1]), _lbool(v[2]))) for k, v in layouts))
    w("]\n")
    for prefix, spec, d, fn in (("PR", PR_SPEC, prd, "compute_pianoroll"), ("PC", PC_SPEC, pcd, "compute_pitch_class_pianoroll"),
                                ("DEC", DEC_SPEC, decd, "pianoroll_to_notearray")):
        w("/-! keyword defaults of `%s` (`time_div`: `none` = \"auto\") -/" % fn)
        for name, kind in spec:
            w("def C13_%s_DEFAULT_%s : %s := %s" % (prefix, name, LEAN_TYPE[kind], d[name] if d[name] is not None else
                                                    {"str": '""', "bool": "false", "int": "0", "rat": "(0 : Rat)",
                                                     "optrat": "none", "autodiv": "none"}[kind]))
        w("")

    def forced_txt(v):
        if isinstance(v, bool):
            return "(some %s, none)" % _lbool(v)
        if isinstance(v, int):
            return "(none, some %s)" % _lint(v)
        notes.append("forced keyword value %r is neither bool nor int" % (v,))
        return "(none, none)"

    w("/-- `compute_pianoroll` -> `_make_pianoroll`: keywords passed on as (keyword, local name) -/")
    w("def C13_MK_FORWARD : List (String × String) := %s" % _llist("(%s, %s)" % (_lstr(a), _lstr(b)) for a, b in mk_fwd))
    w("/-- keywords given a literal value there: (keyword, (bool?, int?)) -/")
    w("def C13_MK_FORCED : List (String × Option Bool × Option Int) := %s" % _llist(
        "(%s, %s)" % (_lstr(a), forced_txt(b)) for a, b in mk_forced))
    w("/-- parameters of `_make_pianoroll` -/")
    w("def C13_MK_PARAMS : List String := %s\n" % _llist(_lstr(p) for p in mk_params))
    w("/-- `compute_pitch_class_pianoroll` -> `compute_pianoroll`: keywords passed on as (keyword, local name) -/")
    w("def C13_PC_FORWARD : List (String × String) := %s" % _llist("(%s, %s)" % (_lstr(a), _lstr(b)) for a, b in pc_fwd))
    w("/-- keywords given a literal value there: (keyword, (bool?, int?)) -/")
    w("def C13_PC_FORCED : List (String × Option Bool × Option Int) := %s\n" % _llist(
        "(%s, %s)" % (_lstr(a), forced_txt(b)) for a, b in pc_forced))
    w("/-- the channel whose notes `remove_drums` drops -/")
    w("def C13_DRUM_CHANNEL : Int := %s" % _lint(drum))
    w("/-- pitch range of a roll without pitch margin -/")
    w("def C13_LOWEST_PITCH : Int := %s" % _lint(lowest))
    w("def C13_HIGHEST_PITCH : Int := %s" % _lint(highest))
    w("/-- `pianoroll[lo:hi, :]` of `piano_range`, and the row offset of the index rows without / with it -/")
    w("def C13_PIANO_LO : Int := %s" % _lint(sl_lo))
    w("def C13_PIANO_HI : Int := %s" % _lint(sl_hi))
    w("def C13_IDX_START : Int := %s" % _lint(start_out))
    w("def C13_IDX_START_PIANO : Int := %s" % _lint(start_in))
    w("/-- `pianoroll_to_notearray`: accepted row counts and their pitch offsets -/")
    w("def C13_DEC_ROWS_FULL : Nat := %d" % max(0, int(dec_full)))
    w("def C13_DEC_ROWS_PIANO : Nat := %d" % max(0, int(dec_piano)))
    w("def C13_DEC_INIT_FULL : Int := %s" % _lint(dec_init0))
    w("def C13_DEC_INIT_PIANO : Int := %s" % _lint(dec_init1))
    w("/-- pitch-class fold: rows of the result, pitch span folded, rows per slice, modulus of the index rows -/")
    w("def C13_PC_ROWS : Nat := %d" % max(0, int(pc_rows)))
    w("def C13_PC_SPAN : Nat := %d" % max(0, int(pc_span)))
    w("def C13_PC_STEP : Nat := %d" % max(0, int(pc_step)))
    w("def C13_PC_MOD : Int := %s\n" % _lint(pc_mod))
    w("/-- everything above could be read from the source -/")
    w("def C13_EXTRACTION_OK : Bool := %s" % _lbool(not notes))
    w("def C13_EXTRACTION_NOTES : List String := %s\n" % _llist(_lstr(n) for n in notes))
    w("end Gen")
    return "\n".join(out) + "\n"


GENERATORS = {"C13Tables.lean": gen_c13}
