"""Translator for C13: every constant the piano-roll model needs, read from the live source
-> lean/PartituraModel/Gen/C13Tables.lean.

* `TIME_UNITS`                          the live list of utils/globals.py
* keyword defaults                      `inspect.signature` of compute_pianoroll, compute_pitch_class_pianoroll,
                                        pianoroll_to_notearray
* keyword forwarding / forced values    the call `_make_pianoroll(...)` inside compute_pianoroll and the call
                                        `compute_pianoroll(...)` inside compute_pitch_class_pianoroll (ast, no execution)
* finite function tables                obtained by calling the live functions on their whole finite domain:
                                        get_time_units_from_note_array on every subset of the `onset_<unit>` fields,
                                        the `time_div="auto"` default of every unit, the note-array layout
                                        ensure_notearray produces per kind of input, the channel(s) `remove_drums`
                                        drops (channels 0..19), the roll heights pianoroll_to_notearray accepts
                                        (0..300) with their pitch offset
* row constants                         default pitch range, piano-range slice and the index-row offsets, read off
                                        the roll of a single note of pitch 60; rows / period / modulus of the pitch-class
                                        fold, read off the pitch-class rolls of the 128 single notes (all independent of
                                        local variable names and of the way the literals are written)

The generator never raises (the shared translator must keep working for the other properties): whatever
cannot be read is emitted as a neutral value and `C13_EXTRACTION_OK` becomes `false` with the reasons in
`C13_EXTRACTION_NOTES`; `C13.tables_extracted` (Props/C13Args.lean) then no longer builds.
"""
import ast
import inspect
import itertools
import textwrap
import warnings
from fractions import Fraction


def _lstr(s):
    out = ['"']
    for ch in str(s):
        if ch == '"':
            out.append('\\"')
        elif ch == "\\":
            out.append("\\\\")
        elif ord(ch) < 32 or ord(ch) > 126:
            out.append("\\u{%x}" % ord(ch))
        else:
            out.append(ch)
    out.append('"')
    return "".join(out)


def _lint(i):
    i = int(i)
    return "(%d)" % i if i < 0 else "%d" % i


def _lrat(x):
    f = Fraction(x) if not isinstance(x, float) else Fraction(*x.as_integer_ratio())
    if f.denominator == 1:
        return "(%d : Rat)" % f.numerator
    return "((%d : Rat) / %d)" % (f.numerator, f.denominator)


def _lbool(b):
    return "true" if b else "false"


def _llist(items):
    return "[" + ", ".join(items) + "]"


def _const(node):
    """python constant of an ast node (handles -1), else raises"""
    return ast.literal_eval(node)


class _Notes(list):
    def need(self, cond, what):
        if not cond:
            self.append(what)
        return cond


def _tree(fn):
    return ast.parse(textwrap.dedent(inspect.getsource(fn)))


def _calls(tree, name):
    out = []
    for node in ast.walk(tree):
        if isinstance(node, ast.Call):
            f = node.func
            if (isinstance(f, ast.Name) and f.id == name) or (isinstance(f, ast.Attribute) and f.attr == name):
                out.append(node)
    return out


def _kw_split(call):
    """(forwarded [(kw, name)], forced [(kw, constant)], other [kw])"""
    fwd, forced, other = [], [], []
    for k in call.keywords:
        if k.arg is None:
            other.append("**")
        elif isinstance(k.value, ast.Name):
            fwd.append((k.arg, k.value.id))
        else:
            try:
                forced.append((k.arg, _const(k.value)))
            except Exception:
                other.append(k.arg)
    # canonical order: the order in which keywords are written at the call site carries no meaning
    return sorted(fwd), sorted(forced, key=lambda kv: kv[0]), sorted(other)


def _defaults(fn, notes, spec):
    """spec: [(param, kind)] with kind in str|bool|int|rat|optrat|autodiv; returns {param: lean text}"""
    sig = inspect.signature(fn)
    out = {}
    for name, kind in spec:
        p = sig.parameters.get(name)
        ok = p is not None and p.default is not inspect.Parameter.empty
        v = p.default if ok else None
        neutral = {"str": '""', "bool": "false", "int": "0", "rat": "(0 : Rat)", "optrat": "none", "autodiv": "none"}[kind]
        txt = neutral
        try:
            if not ok:
                raise ValueError("no default")
            if kind == "str":
                if not isinstance(v, str):
                    raise ValueError(v)
                txt = _lstr(v)
            elif kind == "bool":
                if not isinstance(v, bool):
                    raise ValueError(v)
                txt = _lbool(v)
            elif kind == "int":
                if isinstance(v, bool) or not isinstance(v, int):
                    raise ValueError(v)
                txt = _lint(v)
            elif kind == "rat":
                if isinstance(v, bool) or not isinstance(v, (int, float)):
                    raise ValueError(v)
                txt = _lrat(v)
            elif kind == "optrat":
                if v is None:
                    txt = "none"
                elif isinstance(v, bool) or not isinstance(v, (int, float)):
                    raise ValueError(v)
                else:
                    txt = "some " + _lrat(v)
            elif kind == "autodiv":  # "auto" -> none, a number -> some
                if v == "auto":
                    txt = "none"
                elif isinstance(v, bool) or not isinstance(v, (int, float)):
                    raise ValueError(v)
                else:
                    txt = "some " + _lrat(v)
        except Exception as e:
            notes.append("default of %s.%s unreadable (%s)" % (fn.__name__, name, e))
        out[name] = txt
    return out


PR_SPEC = [("time_unit", "str"), ("time_div", "autodiv"), ("onset_only", "bool"), ("note_separation", "bool"),
           ("pitch_margin", "int"), ("time_margin", "rat"), ("return_idxs", "bool"), ("piano_range", "bool"),
           ("remove_drums", "bool"), ("remove_silence", "bool"), ("end_time", "optrat"), ("binary", "bool")]
PC_SPEC = [("normalize", "bool"), ("time_unit", "str"), ("time_div", "autodiv"), ("onset_only", "bool"),
           ("note_separation", "bool"), ("time_margin", "rat"), ("return_idxs", "bool"), ("remove_silence", "bool"),
           ("end_time", "optrat"), ("binary", "bool")]
DEC_SPEC = [("time_div", "rat"), ("time_unit", "str")]
LEAN_TYPE = {"str": "String", "bool": "Bool", "int": "Int", "rat": "Rat", "optrat": "Option Rat", "autodiv": "Option Rat"}


def _probe_auto_units(M, units, notes):
    """get_time_units_from_note_array on every subset of the onset/duration fields"""
    import numpy as np

    rows = []
    for r in range(len(units) + 1):
        for sub in itertools.combinations(units, r):
            dt = [("pitch", "i4")]
            for u in sub:
                dt += [("onset_" + u, "f4"), ("duration_" + u, "f4")]
            arr = np.zeros(1, dtype=dt)
            try:
                res = M.get_time_units_from_note_array(arr)
            except Exception:
                res = None
            val = None
            if res is not None:
                try:
                    on, du = res
                    if on.startswith("onset_") and du == "duration_" + on[len("onset_"):]:
                        val = on[len("onset_"):]
                    else:
                        notes.append("get_time_units_from_note_array%r returned %r" % (sub, res))
                except Exception:
                    val = None
            rows.append((list(sub), val))
    return rows


def _probe_auto_div(M, units, notes):
    """the `time_div="auto"` default per unit: one note of duration 2 has 2 * time_div frames"""
    import numpy as np

    out = []
    for u in units:
        arr = np.zeros(1, dtype=[("pitch", "i4"), ("onset_" + u, "f4"), ("duration_" + u, "f4")])
        arr["pitch"] = 60
        arr["duration_" + u] = 2
        try:
            with warnings.catch_warnings():
                warnings.simplefilter("ignore")
                pr = M.compute_pianoroll(arr, time_unit=u, time_div="auto", remove_silence=False)
            n = int(pr.shape[1])
            if n % 2 or n < 2:
                notes.append("auto time_div of %s not readable from %d frames" % (u, n))
                out.append((u, None))
            else:
                out.append((u, n // 2))
        except Exception:
            out.append((u, None))
    return out


def _probe_layouts(M, units, notes):
    """the note-array layout `ensure_notearray` produces per kind of input: which onset_<unit>/duration_<unit>
    pairs (dtype order), whether velocity / channel columns exist; None = the input is rejected"""
    import numpy as np
    import partitura.score as S
    import partitura.performance as P

    def part():
        p = S.Part("P0", quarter_duration=4)
        p.add(S.TimeSignature(4, 4), 0)
        p.add(S.Note(step="C", octave=4, alter=None, voice=1, id="n0"), 0, 4)
        return p

    def ppart():
        return P.PerformedPart([dict(id="n0", midi_pitch=60, note_on=0.0, note_off=1.0, velocity=64, track=0, channel=0)],
                               id="PP0")

    def group():
        g = S.PartGroup(group_name="g")
        g.children = [part()]
        return g

    makers = [
        ("part", part),
        ("partgroup", group),
        ("score", lambda: S.Score(partlist=[part()], id="s")),
        ("partlist", lambda: [part()]),
        ("performedpart", ppart),
        ("performance", lambda: P.Performance(performedparts=[ppart()], id="p")),
        ("performedpartlist", lambda: [ppart()]),
        ("emptylist", lambda: []),
        ("plainarray", lambda: np.zeros((1, 4))),
        ("other", lambda: "notes"),
        ("none", lambda: None),
    ]
    out = []
    for kind, mk in makers:
        try:
            obj = mk()
        except Exception as e:
            notes.append("cannot build a minimal %s (%s)" % (kind, e))
            out.append((kind, None))
            continue
        try:
            with warnings.catch_warnings():
                warnings.simplefilter("ignore")
                na = M.ensure_notearray(obj)
            names = list(na.dtype.names)
            us = [n[len("onset_"):] for n in names if n.startswith("onset_")]
            if any("duration_" + u not in names for u in us) or "pitch" not in names:
                notes.append("note array of a %s lacks pitch or a duration column (%r)" % (kind, names))
            out.append((kind, (us, "velocity" in names, "channel" in names)))
        except Exception:
            out.append((kind, None))
    return out


def _one_note(pitch=60, channel=None):
    import numpy as np

    dt = [("pitch", "i4"), ("onset_sec", "f4"), ("duration_sec", "f4"), ("velocity", "i4")]
    if channel is not None:
        dt.append(("channel", "i4"))
    arr = np.zeros(1, dtype=dt)
    arr["pitch"] = pitch
    arr["duration_sec"] = 1
    arr["velocity"] = 64
    if channel is not None:
        arr["channel"] = channel
    return arr


def _quiet(f, *a, **kw):
    with warnings.catch_warnings():
        warnings.simplefilter("ignore")
        return f(*a, **kw)


def _probe_drum_channel(M, notes):
    """the channels whose notes `remove_drums=True` drops (each MIDI channel 0..15 and a few beyond, one at a time)"""
    dropped = []
    for ch in range(0, 20):
        try:
            _quiet(M.compute_pianoroll, _one_note(60, ch), time_div=1, remove_drums=True)
        except Exception:
            # an empty note array is rejected: the only note was dropped
            try:
                _quiet(M.compute_pianoroll, _one_note(60, ch), time_div=1, remove_drums=False)
                dropped.append(ch)
            except Exception:
                notes.append("compute_pianoroll rejects a single note on channel %d" % ch)
    if len(dropped) != 1:
        notes.append("remove_drums drops the channels %r (expected exactly one)" % (dropped,))
        return 0
    return dropped[0]


def _probe_rows(M, notes):
    """(lowest, highest, piano_lo, piano_hi, idx_start, idx_start_piano) read off the roll of one note of pitch 60"""
    try:
        pr, idx = _quiet(M.compute_pianoroll, _one_note(60), time_div=1, pitch_margin=-1, piano_range=False, return_idxs=True)
        a = pr.toarray()
        r = int(a.nonzero()[0][0])
        lowest = 60 - r
        highest = lowest + a.shape[0] - 1
        start = (60 - lowest) - int(idx[0][0])
        pr2, idx2 = _quiet(M.compute_pianoroll, _one_note(60), time_div=1, pitch_margin=-1, piano_range=True, return_idxs=True)
        b = pr2.toarray()
        r2 = int(b.nonzero()[0][0])
        lo = (60 - lowest) - r2
        hi = lo + b.shape[0]
        if hi >= a.shape[0]:
            notes.append("piano-range slice reaches the last row: its upper bound cannot be read off")
        start_piano = (60 - lowest) - int(idx2[0][0])
        return lowest, highest, lo, hi, start, start_piano
    except Exception as e:
        notes.append("row constants unreadable (%s: %s)" % (type(e).__name__, e))
        return 0, 0, 0, 0, 0, 0


def _probe_decoder(M, notes):
    """[(rows, pitch offset)] of the roll heights `pianoroll_to_notearray` accepts (heights 0..300 tried)"""
    import numpy as np

    out = []
    for rows in range(0, 301):
        a = np.zeros((rows, 1), dtype=int)
        if rows:
            a[0, 0] = 1
        try:
            na = _quiet(M.pianoroll_to_notearray, a, 1, "sec")
        except Exception:
            continue
        if rows == 0 or len(na) != 1:
            notes.append("pianoroll_to_notearray accepts a roll with %d rows and returns %d notes" % (rows, len(na)))
            continue
        out.append((rows, int(na["pitch"][0])))
    return out


def _probe_pc(M, notes):
    """(rows of the pitch-class roll, number of pitches folded, fold period, modulus of the index rows), read off
    the pitch-class rolls of the 128 single notes"""
    try:
        cls, idx0, rows = [], [], set()
        for p in range(128):
            pc, idx = _quiet(M.compute_pitch_class_pianoroll, _one_note(p), normalize=False, time_div=1, return_idxs=True)
            rows.add(int(pc.shape[0]))
            nz = sorted(set(int(x) for x in pc.nonzero()[0]))
            cls.append(nz[0] if len(nz) == 1 else None)
            idx0.append(int(idx[0][0]))
        span = sum(1 for c in cls if c is not None)
        if len(rows) != 1 or span != 128:
            notes.append("pitch-class roll: %r rows, %d of 128 pitches shown in exactly one class" % (sorted(rows), span))
        step = [m for m in range(1, 129) if all(c == p % m for p, c in enumerate(cls))]
        mod = [m for m in range(1, 129) if all(c == p % m for p, c in enumerate(idx0))]
        if not step or not mod:
            notes.append("pitch-class roll: the class of a pitch is not pitch mod m (classes %r..., index rows %r...)" % (cls[:14], idx0[:14]))
            return (sorted(rows)[0] if rows else 0), span, 0, 0
        return sorted(rows)[0], span, step[0], mod[0]
    except Exception as e:
        notes.append("pitch-class constants unreadable (%s: %s)" % (type(e).__name__, e))
        return 0, 0, 0, 0


def gen_c13():
    notes = _Notes()
    out = []
    w = out.append
    w("/- GENERATED by harness/translate_c13.py from the live partitura source (utils/globals.py, utils/music.py).")
    w("   Do not edit. -/")
    w("namespace Gen\n")
    units = []
    auto_units = []
    auto_div = []
    layouts = []
    prd = {n: None for n, _ in PR_SPEC}
    pcd = {n: None for n, _ in PC_SPEC}
    decd = {n: None for n, _ in DEC_SPEC}
    mk_fwd, mk_forced, pc_fwd, pc_forced = [], [], [], []
    mk_params = []
    drum = 0
    lowest = highest = 0
    sl_lo = sl_hi = start_in = start_out = 0
    dec_shapes = []
    pc_rows = pc_span = pc_step = pc_mod = 0
    try:
        import partitura.utils.globals as G
        import partitura.utils.music as M

        units = [str(u) for u in G.TIME_UNITS]
        notes.need(M.TIME_UNITS is G.TIME_UNITS or list(M.TIME_UNITS) == units, "music.TIME_UNITS is not globals.TIME_UNITS")
        auto_units = _probe_auto_units(M, units, notes)
        auto_div = _probe_auto_div(M, units, notes)
        layouts = _probe_layouts(M, units, notes)
        prd = _defaults(M.compute_pianoroll, notes, PR_SPEC)
        pcd = _defaults(M.compute_pitch_class_pianoroll, notes, PC_SPEC)
        decd = _defaults(M.pianoroll_to_notearray, notes, DEC_SPEC)

        t_pr = _tree(M.compute_pianoroll)
        t_pc = _tree(M.compute_pitch_class_pianoroll)

        # compute_pianoroll -> _make_pianoroll
        calls = _calls(t_pr, "_make_pianoroll")
        if notes.need(len(calls) == 1 and not calls[0].args, "compute_pianoroll: expected one keyword-only call of _make_pianoroll"):
            mk_fwd, mk_forced, other = _kw_split(calls[0])
            notes.need(not other, "compute_pianoroll: unreadable keywords %r" % (other,))
        mk_params = [p for p in inspect.signature(M._make_pianoroll).parameters]
        # compute_pitch_class_pianoroll -> compute_pianoroll
        calls = _calls(t_pc, "compute_pianoroll")
        if notes.need(len(calls) == 1 and not calls[0].args, "compute_pitch_class_pianoroll: expected one keyword-only call of compute_pianoroll"):
            pc_fwd, pc_forced, other = _kw_split(calls[0])
            notes.need(not other, "compute_pitch_class_pianoroll: unreadable keywords %r" % (other,))

        drum = _probe_drum_channel(M, notes)
        lowest, highest, sl_lo, sl_hi, start_out, start_in = _probe_rows(M, notes)
        dec_shapes = _probe_decoder(M, notes)
        pc_rows, pc_span, pc_step, pc_mod = _probe_pc(M, notes)
    except Exception as e:  # never take the shared translator down
        notes.append("extraction failed: %s: %s" % (type(e).__name__, e))

    w("/-- `TIME_UNITS` of utils/globals.py -/")
    w("def C13_TIME_UNITS : List String := %s\n" % _llist(_lstr(u) for u in units))
    w("/-- `get_time_units_from_note_array` tabulated on every subset of the `onset_<unit>` fields")
    w("    (subset in `TIME_UNITS` order; `none` = the call raises or returns no pair) -/")
    w("def C13_AUTO_UNITS : List (List String × Option String) := [")
    w(",\n".join("  (%s, %s)" % (_llist(_lstr(u) for u in sub), "none" if v is None else "some " + _lstr(v))
                 for sub, v in auto_units))
    w("]\n")
    w("/-- the frames per time unit chosen by `time_div=\"auto\"`, per unit (`none` = the call raises) -/")
    w("def C13_AUTO_DIV : List (String × Option Int) := %s\n" % _llist(
        "(%s, %s)" % (_lstr(u), "none" if v is None else "some " + _lint(v)) for u, v in auto_div))
    w("/-- `ensure_notearray` per kind of input (a structured array is returned as it is): the time units that have")
    w("    onset/duration columns (dtype order), velocity column?, channel column?; `none` = rejected -/")
    w("def C13_LAYOUTS : List (String × Option (List String × Bool × Bool)) := [")
    w(",\n".join("  (%s, %s)" % (_lstr(k), "none" if v is None else "some (%s, %s, %s)" % (
        _llist(_lstr(u) for u in v[0]), _lbool(v[1]), _lbool(v[2]))) for k, v in layouts))
    w("]\n")
    for prefix, spec, d, fn in (("PR", PR_SPEC, prd, "compute_pianoroll"), ("PC", PC_SPEC, pcd, "compute_pitch_class_pianoroll"),
                                ("DEC", DEC_SPEC, decd, "pianoroll_to_notearray")):
        w("/-! keyword defaults of `%s` (`time_div`: `none` = \"auto\") -/" % fn)
        for name, kind in spec:
            w("def C13_%s_DEFAULT_%s : %s := %s" % (prefix, name, LEAN_TYPE[kind], d[name] if d[name] is not None else
                                                    {"str": '""', "bool": "false", "int": "0", "rat": "(0 : Rat)",
                                                     "optrat": "none", "autodiv": "none"}[kind]))
        w("")

    def forced_txt(v):
        if isinstance(v, bool):
            return "(some %s, none)" % _lbool(v)
        if isinstance(v, int):
            return "(none, some %s)" % _lint(v)
        notes.append("forced keyword value %r is neither bool nor int" % (v,))
        return "(none, none)"

    w("/-- `compute_pianoroll` -> `_make_pianoroll`: keywords passed on as (keyword, local name) -/")
    w("def C13_MK_FORWARD : List (String × String) := %s" % _llist("(%s, %s)" % (_lstr(a), _lstr(b)) for a, b in mk_fwd))
    w("/-- keywords given a literal value there: (keyword, (bool?, int?)) -/")
    w("def C13_MK_FORCED : List (String × Option Bool × Option Int) := %s" % _llist(
        "(%s, %s)" % (_lstr(a), forced_txt(b)) for a, b in mk_forced))
    w("/-- parameters of `_make_pianoroll` -/")
    w("def C13_MK_PARAMS : List String := %s\n" % _llist(_lstr(p) for p in mk_params))
    w("/-- `compute_pitch_class_pianoroll` -> `compute_pianoroll`: keywords passed on as (keyword, local name) -/")
    w("def C13_PC_FORWARD : List (String × String) := %s" % _llist("(%s, %s)" % (_lstr(a), _lstr(b)) for a, b in pc_fwd))
    w("/-- keywords given a literal value there: (keyword, (bool?, int?)) -/")
    w("def C13_PC_FORCED : List (String × Option Bool × Option Int) := %s\n" % _llist(
        "(%s, %s)" % (_lstr(a), forced_txt(b)) for a, b in pc_forced))
    w("/-- the channel whose notes `remove_drums` drops -/")
    w("def C13_DRUM_CHANNEL : Int := %s" % _lint(drum))
    w("/-- pitch range of a roll without pitch margin -/")
    w("def C13_LOWEST_PITCH : Int := %s" % _lint(lowest))
    w("def C13_HIGHEST_PITCH : Int := %s" % _lint(highest))
    w("/-- `pianoroll[lo:hi, :]` of `piano_range`, and the row offset of the index rows without / with it -/")
    w("def C13_PIANO_LO : Int := %s" % _lint(sl_lo))
    w("def C13_PIANO_HI : Int := %s" % _lint(sl_hi))
    w("def C13_IDX_START : Int := %s" % _lint(start_out))
    w("def C13_IDX_START_PIANO : Int := %s" % _lint(start_in))
    w("/-- `pianoroll_to_notearray`: the roll heights it accepts (every height 0..300 tried) with the pitch of row 0 -/")
    w("def C13_DEC_SHAPES : List (Nat × Int) := %s" % _llist("(%d, %s)" % (r, _lint(p)) for r, p in dec_shapes))
    w("/-- pitch-class fold: rows of the result, pitch span folded, rows per slice, modulus of the index rows -/")
    w("def C13_PC_ROWS : Nat := %d" % max(0, int(pc_rows)))
    w("def C13_PC_SPAN : Nat := %d" % max(0, int(pc_span)))
    w("def C13_PC_STEP : Nat := %d" % max(0, int(pc_step)))
    w("def C13_PC_MOD : Int := %s\n" % _lint(pc_mod))
    w("/-- everything above could be read from the source -/")
    w("def C13_EXTRACTION_OK : Bool := %s" % _lbool(not notes))
    w("def C13_EXTRACTION_NOTES : List String := %s\n" % _llist(_lstr(n) for n in notes))
    w("end Gen")
    return "\n".join(out) + "\n"


GENERATORS = {"C13Tables.lean": gen_c13}
