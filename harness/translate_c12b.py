"""Translator for C12, second file (round 6): more literals written INSIDE function bodies
-> lean/PartituraModel/Gen/C12Lits.lean   (namespace Gen.C12L).

Read from the LIVE source by `ast` (nothing is executed), by the ROLE a constant plays, not by its position, so that
renaming locals or reordering independent statements changes nothing:

  key_name_to_fifths_mode     the minor mark ('m'); per mode: the rotation of fifths_list (`fl[R:] + fl[:R]`), the flat
                              mark of the `or` test, the second operand of that test (two-character rule `len(..) == L
                              and index > T`, or the name compared with `== "F"`), and for the flat side / the sharp side:
                              the `+ 1` of the index, the threshold and the two values of `corr = A if idx > T else B`,
                              the factor 7 and the character counted.  `idx >= T` is read as `idx > T-1`.
  pitch_spelling_to_note_name the value written for no alteration, the double-sharp special case (`alter == 2` -> "x"),
                              the sharp and flat characters that are repeated
  format_symbolic_duration    "unknown", the `or ""` of the type, the dot, the default of dots, the "_{}/{}" format
  symbolic_to_numeric_duration the two `or 1` and the default number of dots
  to_quarter_tempo            the character counted and the characters stripped from the right

What cannot be read is emitted as a neutral value with a note; `extractionOkL` is then `false` and
`C12.literals_extracted` (Props/C12Lits.lean) no longer builds.
"""
import ast
import inspect
import textwrap

from translate_c12 import _lstr, _lchar, _lint, _llist, _num, _fn, _Notes, _resolve


def _is_const(n, typ):
    return isinstance(n, ast.Constant) and isinstance(n.value, typ) and not (typ is int and isinstance(n.value, bool))


def _int_of(n):
    v = _num(n)
    if v is None or v.denominator != 1:
        raise ValueError("integer expected")
    return int(v)


def _gt(test):
    """`x > T` / `x >= T`  ->  T as for `>`"""
    if not (isinstance(test, ast.Compare) and len(test.ops) == 1):
        raise ValueError("comparison")
    t = _int_of(test.comparators[0])
    if isinstance(test.ops[0], ast.Gt):
        return t
    if isinstance(test.ops[0], ast.GtE):
        return t - 1
    raise ValueError("comparison operator")


def _has_call(n, attr):
    return any(isinstance(x, ast.Call) and isinstance(x.func, ast.Attribute) and x.func.attr == attr for x in ast.walk(n))


def _assigns(stmts):
    return [s for s in stmts if isinstance(s, ast.Assign) and len(s.targets) == 1 and isinstance(s.targets[0], ast.Name)]


def _side(stmts, flat):
    """{plus, thr, yes, no, seven, count} of one side.  The assignments are substituted into each other in source order
    (a later assignment to the same name wins), so that only the final formula of the number of fifths is read:
        flat:   -(INDEX + plus) - seven * (name.count(c) - (yes if INDEX + plus > thr else no))
        sharp:   (INDEX + plus) + seven * (name.count(c) - (yes if ... > thr else no))
    whatever the locals are called and whether `corr` is a statement of its own or written in place."""
    import copy
    env, e = {}, None
    for s in _assigns(stmts):
        val = _resolve(copy.deepcopy(s.value), env)
        env[s.targets[0].id] = val
        if _has_call(val, "count"):
            e = val
    if e is None:
        raise ValueError("no formula with .count()")
    out = {}
    if not (isinstance(e, ast.BinOp) and isinstance(e.op, ast.Sub if flat else ast.Add)):
        raise ValueError("fifths formula")
    if flat:
        if not (isinstance(e.left, ast.UnaryOp) and isinstance(e.left.op, ast.USub)):
            raise ValueError("fifths formula (flat)")
        v = e.left.operand
    else:
        v = e.left
    if not _has_call(v, "index") or _has_call(v, "count"):
        raise ValueError("index term")
    if isinstance(v, ast.BinOp) and isinstance(v.op, ast.Add):
        consts = [x for x in (v.left, v.right) if _num(x) is not None]
        if len(consts) != 1:
            raise ValueError("index offset")
        out["plus"] = _int_of(consts[0])
        call = v.left if consts[0] is v.right else v.right
    else:
        out["plus"] = 0
        call = v
    rev = any(isinstance(x, ast.Slice) and x.step is not None and _num(x.step) == -1 and x.lower is None and x.upper is None
              for x in ast.walk(call))
    if rev != flat:
        raise ValueError("reversal of the list")
    m = e.right
    if not (isinstance(m, ast.BinOp) and isinstance(m.op, ast.Mult)):
        raise ValueError("factor")
    facs = [x for x in (m.left, m.right) if _num(x) is not None]
    if len(facs) != 1:
        raise ValueError("factor")
    out["seven"] = _int_of(facs[0])
    inner = m.right if facs[0] is m.left else m.left
    if not (isinstance(inner, ast.BinOp) and isinstance(inner.op, ast.Sub) and isinstance(inner.right, ast.IfExp)):
        raise ValueError("count - corr")
    ie = inner.right
    out["thr"] = _gt(ie.test)
    if ast.dump(ie.test.left) != ast.dump(v):
        raise ValueError("corr does not test the index term")
    out["yes"], out["no"] = _int_of(ie.body), _int_of(ie.orelse)
    cnt = [x for x in ast.walk(inner.left) if isinstance(x, ast.Call) and isinstance(x.func, ast.Attribute) and x.func.attr == "count"]
    if len(cnt) != 1 or len(cnt[0].args) != 1 or not _is_const(cnt[0].args[0], str) or len(cnt[0].args[0].value) != 1:
        raise ValueError("counted character")
    out["count"] = cnt[0].args[0].value
    return out


def _branch(stmts, minor):
    out = {}
    rots = []
    for s in _assigns(stmts):
        v = s.value
        if isinstance(v, ast.BinOp) and isinstance(v.op, ast.Add) and isinstance(v.left, ast.Subscript) \
                and isinstance(v.right, ast.Subscript) and isinstance(v.left.slice, ast.Slice) and isinstance(v.right.slice, ast.Slice):
            a, b = v.left.slice, v.right.slice
            if a.lower is None or a.upper is not None or b.upper is None or b.lower is not None:
                raise ValueError("rotation slices")
            if _int_of(a.lower) != _int_of(b.upper):
                raise ValueError("rotation: the two slices differ")
            rots.append(_int_of(a.lower))
    if len(rots) != 1 or rots[0] < 0:
        raise ValueError("rotation")
    out["rot"] = rots[0]
    ifs = [s for s in stmts if isinstance(s, ast.If)]
    if len(ifs) != 1:
        raise ValueError("inner if")
    t = ifs[0].test
    if not (isinstance(t, ast.BoolOp) and isinstance(t.op, ast.Or) and len(t.values) == 2):
        raise ValueError("inner test")
    first, second = t.values
    if not (isinstance(first, ast.Compare) and len(first.ops) == 1 and isinstance(first.ops[0], ast.In)
            and _is_const(first.left, str) and len(first.left.value) == 1):
        raise ValueError("flat test")
    out["flatMark"] = first.left.value
    if minor:
        if not (isinstance(second, ast.BoolOp) and isinstance(second.op, ast.And) and len(second.values) == 2):
            raise ValueError("two-character rule")
        ln, ix = second.values
        if not (isinstance(ln, ast.Compare) and len(ln.ops) == 1 and isinstance(ln.ops[0], ast.Eq)
                and isinstance(ln.left, ast.Call) and getattr(ln.left.func, "id", None) == "len"):
            raise ValueError("length test")
        out["lenEq"] = _int_of(ln.comparators[0])
        out["lenThr"] = _gt(ix)
    else:
        if not (isinstance(second, ast.Compare) and len(second.ops) == 1 and isinstance(second.ops[0], ast.Eq)
                and _is_const(second.comparators[0], str)):
            raise ValueError("name test")
        out["name"] = second.comparators[0].value
    out["flat"] = _side(ifs[0].body, True)
    out["sharp"] = _side(ifs[0].orelse, False)
    return out


def _k2f(fn):
    fdef = _fn(fn)
    tops = [s for s in fdef.body if isinstance(s, ast.If)]
    if len(tops) != 1:
        raise ValueError("top-level if")
    t = tops[0].test
    if not (isinstance(t, ast.Compare) and len(t.ops) == 1 and isinstance(t.ops[0], ast.In) and _is_const(t.left, str)
            and len(t.left.value) == 1):
        raise ValueError("minor test")
    return {"mark": t.left.value, "minor": _branch(tops[0].body, True), "major": _branch(tops[0].orelse, False)}


def _note_name(fn):
    fdef = _fn(fn)
    par = fdef.args.args[1].arg
    out = {}
    init = [s for s in _assigns(fdef.body) if _is_const(s.value, str)]
    if len(init) != 1:
        raise ValueError("initial value")
    out["natural"] = init[0].value.value
    tops = [s for s in fdef.body if isinstance(s, ast.If)]
    if len(tops) != 1:
        raise ValueError("if")
    pos = tops[0]

    def cmp0(test, op):
        return (isinstance(test, ast.Compare) and len(test.ops) == 1 and isinstance(test.ops[0], op)
                and isinstance(test.left, ast.Name) and test.left.id == par and _num(test.comparators[0]) == 0)

    if not cmp0(pos.test, ast.Gt) or len(pos.orelse) != 1 or not isinstance(pos.orelse[0], ast.If) \
            or not cmp0(pos.orelse[0].test, ast.Lt) or pos.orelse[0].orelse:
        raise ValueError("sign tests")
    inner = [s for s in pos.body if isinstance(s, ast.If)]
    if len(inner) != 1 or len(pos.body) != 1:
        raise ValueError("double-sharp test")
    it = inner[0].test
    if not (isinstance(it, ast.Compare) and len(it.ops) == 1 and isinstance(it.ops[0], ast.Eq)
            and isinstance(it.left, ast.Name) and it.left.id == par):
        raise ValueError("double-sharp test")
    out["double"] = _int_of(it.comparators[0])
    a = _assigns(inner[0].body)
    if len(a) != 1 or not _is_const(a[0].value, str):
        raise ValueError("double-sharp sign")
    out["doubleSign"] = a[0].value.value

    def rep(stmts, with_abs):
        a = _assigns(stmts)
        if len(a) != 1 or not (isinstance(a[0].value, ast.BinOp) and isinstance(a[0].value.op, ast.Mult)):
            raise ValueError("repeated sign")
        l, r = a[0].value.left, a[0].value.right
        s, n = (l, r) if _is_const(l, str) else (r, l)
        if not _is_const(s, str) or len(s.value) != 1:
            raise ValueError("repeated sign")
        is_abs = isinstance(n, ast.Call) and getattr(n.func, "id", None) == "abs" and isinstance(n.args[0], ast.Name) \
            and n.args[0].id == par
        is_neg = isinstance(n, ast.UnaryOp) and isinstance(n.op, ast.USub) and isinstance(n.operand, ast.Name) and n.operand.id == par
        is_name = isinstance(n, ast.Name) and n.id == par
        if (with_abs and not (is_abs or is_neg)) or (not with_abs and not (is_name or is_abs)):
            raise ValueError("repeat count")
        return s.value

    out["sharp"] = rep(inner[0].orelse, False)
    out["flat"] = rep(pos.orelse[0].body, True)
    # the name itself: step.upper(), the accidentals, the octave - nothing in between
    js = [n for n in ast.walk(fdef) if isinstance(n, ast.JoinedStr)]
    if len(js) != 1 or len(js[0].values) != 3 or not all(isinstance(v, ast.FormattedValue) for v in js[0].values):
        raise ValueError("f-string")
    v0, v1, v2 = [v.value for v in js[0].values]
    if not (isinstance(v0, ast.Call) and isinstance(v0.func, ast.Attribute) and v0.func.attr == "upper"
            and isinstance(v1, ast.Name) and isinstance(v2, ast.Name) and v2.id == fdef.args.args[2].arg):
        raise ValueError("f-string parts")
    return out


def _fsd(fn):
    fdef = _fn(fn)
    out = {}
    rets = [n for n in ast.walk(fdef) if isinstance(n, ast.Return) and _is_const(n.value, str)]
    if len(rets) != 1:
        raise ValueError("constant return")
    out["unknown"] = rets[0].value.value
    res = None
    for s in ast.walk(fdef):
        if isinstance(s, ast.Assign) and isinstance(s.value, ast.BinOp) and isinstance(s.value.op, ast.Add) \
                and isinstance(s.value.left, ast.BoolOp):
            res = s.value
    if res is None:
        raise ValueError("result line")
    bo = res.left
    if not (isinstance(bo.op, ast.Or) and len(bo.values) == 2 and _is_const(bo.values[1], str)):
        raise ValueError("type or ''")
    out["typeDefault"] = bo.values[1].value
    m = res.right
    if not (isinstance(m, ast.BinOp) and isinstance(m.op, ast.Mult)):
        raise ValueError("dots")
    s, g = (m.left, m.right) if _is_const(m.left, str) else (m.right, m.left)
    if not _is_const(s, str) or len(s.value) != 1:
        raise ValueError("dot")
    out["dot"] = s.value
    if not (isinstance(g, ast.Call) and isinstance(g.func, ast.Attribute) and g.func.attr == "get" and len(g.args) == 2):
        raise ValueError("dots default")
    out["dotsDefault"] = _int_of(g.args[1])
    if out["dotsDefault"] < 0:
        raise ValueError("dots default")
    fm = [n for n in ast.walk(fdef) if isinstance(n, ast.Call) and isinstance(n.func, ast.Attribute) and n.func.attr == "format"
          and _is_const(n.func.value, str)]
    if len(fm) != 1 or len(fm[0].args) != 2:
        raise ValueError("format call")
    out["format"] = fm[0].func.value.value
    return out


def _s2n(fn):
    fdef = _fn(fn)
    ors = [n for n in ast.walk(fdef) if isinstance(n, ast.BoolOp) and isinstance(n.op, ast.Or) and len(n.values) == 2
           and isinstance(n.values[0], ast.Call) and _num(n.values[1]) is not None]
    if len(ors) != 2:
        raise ValueError("two `or` defaults")
    byk = {}
    for o in ors:
        a = o.values[0].args
        if not a or not _is_const(a[0], str):
            raise ValueError("key")
        byk[a[0].value] = _int_of(o.values[1])
    if set(byk) != {"normal_notes", "actual_notes"}:
        raise ValueError("keys %r" % sorted(byk))
    gets = [n for n in ast.walk(fdef) if isinstance(n, ast.Call) and isinstance(n.func, ast.Attribute) and n.func.attr == "get"
            and n.args and _is_const(n.args[0], str) and n.args[0].value == "dots"]
    if len(gets) != 1 or len(gets[0].args) != 2:
        raise ValueError("dots default")
    d = _int_of(gets[0].args[1])
    if d < 0 or byk["normal_notes"] < 0 or byk["actual_notes"] < 0:
        raise ValueError("negative default")
    return {"orNormal": byk["normal_notes"], "orActual": byk["actual_notes"], "dotsDefault": d}


def _tqt(fn):
    fdef = _fn(fn)
    cnt = [n for n in ast.walk(fdef) if isinstance(n, ast.Call) and isinstance(n.func, ast.Attribute) and n.func.attr == "count"]
    rs = [n for n in ast.walk(fdef) if isinstance(n, ast.Call) and isinstance(n.func, ast.Attribute) and n.func.attr == "rstrip"]
    st = [n for n in ast.walk(fdef) if isinstance(n, ast.Call) and isinstance(n.func, ast.Attribute) and n.func.attr == "strip"]
    if len(cnt) != 1 or len(rs) != 1 or len(st) != 1 or st[0].args:
        raise ValueError("count / strip / rstrip calls")
    if len(cnt[0].args) != 1 or not _is_const(cnt[0].args[0], str) or len(cnt[0].args[0].value) != 1:
        raise ValueError("counted character")
    if len(rs[0].args) != 1 or not _is_const(rs[0].args[0], str):
        raise ValueError("stripped characters")
    # unit.strip().rstrip("."): rstrip is applied to the result of strip
    if rs[0].func.value is not st[0]:
        raise ValueError("order of strip / rstrip")
    return {"count": cnt[0].args[0].value, "strip": list(rs[0].args[0].value)}


def gen_c12_lits():
    notes = _Notes()
    w = []
    out = w.append
    out("/- GENERATED by harness/translate_c12b.py from the live partitura source (utils/music.py): more literals written")
    out("   inside the conversion functions, read by role.  Do not edit. -/")
    out("namespace Gen.C12L\n")
    try:
        import partitura.utils.music as M
    except Exception as e:  # pragma: no cover
        notes.append("import failed: %s" % e)
        M = None

    def read(what, f, default):
        try:
            return f()
        except Exception as e:
            notes.append("%s unreadable (%s)" % (what, e))
            return default

    side0 = {"plus": 0, "thr": 0, "yes": 0, "no": 0, "seven": 0, "count": "?"}
    br0 = {"rot": 0, "flatMark": "?", "lenEq": 0, "lenThr": 0, "name": "", "flat": side0, "sharp": side0}
    k = read("key_name_to_fifths_mode", lambda: _k2f(M.key_name_to_fifths_mode), {"mark": "?", "minor": br0, "major": br0})

    def side(s):
        return "{ plus := %s, thr := %s, corrYes := %s, corrNo := %s, seven := %s, count := %s }" % (
            _lint(s["plus"]), _lint(s["thr"]), _lint(s["yes"]), _lint(s["no"]), _lint(s["seven"]), _lchar(s["count"]))

    out("/-- one side of `key_name_to_fifths_mode`: `idx = <index> + plus`, `corr = corrYes if idx > thr else corrNo`,")
    out("    `fifths = ∓idx ∓ seven * (name.count(count) - corr)` -/")
    out("structure K2FSide where")
    out("  plus : Int\n  thr : Int\n  corrYes : Int\n  corrNo : Int\n  seven : Int\n  count : Char")
    out("  deriving DecidableEq, Repr\n")
    out("/-- one mode: `s_list = fifths_list[rot:] + fifths_list[:rot]`, `if flatMark in name or <second test>` -/")
    out("structure K2FBranch where")
    out("  rot : Nat\n  flatMark : Char\n  flat : K2FSide\n  sharp : K2FSide")
    out("  deriving DecidableEq, Repr\n")
    for nm in ("minor", "major"):
        b = k[nm]
        out("def k2f%s : K2FBranch :=" % nm.capitalize())
        out("  { rot := %d, flatMark := %s," % (b["rot"], _lchar(b["flatMark"])))
        out("    flat := %s," % side(b["flat"]))
        out("    sharp := %s }\n" % side(b["sharp"]))
    out("/-- `if k2fMinorMark in key_name` -/")
    out("def k2fMinorMark : Char := %s" % _lchar(k["mark"]))
    out("/-- minor: `or (len(key_name) == k2fLenEq and s_list.index(key_name[0]) > k2fLenThr)` -/")
    out("def k2fLenEq : Nat := %d" % max(0, k["minor"].get("lenEq", 0)))
    out("def k2fLenThr : Int := %s" % _lint(k["minor"].get("lenThr", 0)))
    out("/-- major: `or key_name == k2fMajorName` -/")
    out("def k2fMajorName : String := %s\n" % _lstr(k["major"].get("name", "")))

    n = read("pitch_spelling_to_note_name", lambda: _note_name(M.pitch_spelling_to_note_name),
             {"natural": "", "double": 0, "doubleSign": "", "sharp": "?", "flat": "?"})
    out("/-- `pitch_spelling_to_note_name`: no alteration, `alter == nnDouble` -> nnDoubleSign, else `alter * nnSharp`;")
    out("    negative: `abs(alter) * nnFlat` -/")
    out("def nnNatural : String := %s" % _lstr(n["natural"]))
    out("def nnDouble : Int := %s" % _lint(n["double"]))
    out("def nnDoubleSign : String := %s" % _lstr(n["doubleSign"]))
    out("def nnSharp : Char := %s" % _lchar(n["sharp"]))
    out("def nnFlat : Char := %s\n" % _lchar(n["flat"]))

    f = read("format_symbolic_duration", lambda: _fsd(M.format_symbolic_duration),
             {"unknown": "", "typeDefault": "", "dot": "?", "dotsDefault": 0, "format": ""})
    out("/-- `format_symbolic_duration`: `None` -> fsdUnknown; `(type or fsdTypeDefault) + fsdDot * dots(default")
    out("    fsdDotsDefault)`; tuplet suffix `fsdFormat.format(actual, normal)` -/")
    out("def fsdUnknown : String := %s" % _lstr(f["unknown"]))
    out("def fsdTypeDefault : String := %s" % _lstr(f["typeDefault"]))
    out("def fsdDot : Char := %s" % _lchar(f["dot"]))
    out("def fsdDotsDefault : Nat := %d" % f["dotsDefault"])
    out("def fsdFormat : String := %s\n" % _lstr(f["format"]))

    s = read("symbolic_to_numeric_duration", lambda: _s2n(M.symbolic_to_numeric_duration),
             {"orNormal": 0, "orActual": 0, "dotsDefault": 0})
    out("/-- `symbolic_to_numeric_duration`: `(normal_notes or s2nOrNormal) / (actual_notes or s2nOrActual)`, dots default -/")
    out("def s2nOrNormal : Nat := %d" % s["orNormal"])
    out("def s2nOrActual : Nat := %d" % s["orActual"])
    out("def s2nDotsDefault : Nat := %d\n" % s["dotsDefault"])

    t = read("to_quarter_tempo", lambda: _tqt(M.to_quarter_tempo), {"count": "?", "strip": []})
    out("/-- `to_quarter_tempo`: `dots = unit.count(tqtCount)`, `unit.strip().rstrip(tqtStrip)` -/")
    out("def tqtCount : Char := %s" % _lchar(t["count"]))
    out("def tqtStrip : List Char := %s\n" % _llist([_lchar(c) for c in t["strip"]]))

    out("def extractionOkL : Bool := %s" % ("true" if not notes else "false"))
    out("def extractionNotesL : List String := %s\n" % _llist([_lstr(x) for x in notes]))
    out("end Gen.C12L")
    return "\n".join(w) + "\n"


GENERATORS = {"C12Lits.lean": gen_c12_lits}

if __name__ == "__main__":
    print(gen_c12_lits())
