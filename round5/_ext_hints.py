HINTS = {
"C01": """- Model the memo `Part._quarter_map` as an explicit model component (built lazily, invalidated by set_quarter_duration …) and prove 'cached map = fresh map' in every reachable state — today it is compared only.
- `TimePoint.remove_starting_object / remove_ending_object / add_starting_object / add_ending_object` (used by the Slur / Tuplet / tie setters, bypassing `_cleanup_point`) and the `Slur.start_note/end_note`, `Tuplet` setters, `Note.tie_next/tie_prev` as further operations of the histories: what do they preserve of Inv/WInv?
- Order among the objects of ONE time point: state and prove it (insertion order per class bucket, class order = iter_subclasses order) instead of comparing only.
- `Part.remove` of objects with refs, `Part.iter_all` argument forms (TimePoint / int / numpy ints / float start-end), `include_subclasses` × `mode` grid: put the argument normalisation in the model.
- Regenerate from source what is hand-copied (defaults of add/iter_all signatures, mode names).""",
"C02": """- The remaining TRUSTED scipy pieces: model `interp1d` linear's segment choice at knots exactly as scipy does (searchsorted side, clip) and prove the maps are independent of that choice at knots (continuity) — so the trust shrinks to 'any valid segment choice'.
- inv_beat_map / inv_quarter_map AT the ends of the image (today oracle only) and outside it (NaN): model + theorem.
- Other public views built on the maps: `Part.beat_map` with `use_notated_beat` after `use_musical_beat`, `Score`-level helpers, `TimePoint.quarter`; `Part.measure_number_map` is C10's.
- Regenerate MUSICAL_BEATS and the default arguments from source if not yet generated.""",
"C03": """- Element codecs still 'compared only': <barline> (repeat, ending, fermata), <harmony> (chord symbols, roman numerals), <print> (page/system breaks), <part-list> (groups) — model writer and reader and prove reader(writer x) = x.
- Prove that `readDirections` (full element model) refines `slotAll` (wedges_paired); pedal pairing.
- Byte fixpoint: prove for the MODEL that save ∘ load ∘ save = save on the modelled element set (writer(reader(writer x)) = writer x follows from reader(writer x) = x: state it as a theorem per element and for the measure linearisation).
- Regenerate from source the literal tables the codecs copy (articulation / ornament / notation name lists, DYN_DIRECTIONS, clef defaults …).""",
"C04": """- `h` hypothesis of the export theorems (saveScoreMidi returns): characterise exactly when the exporter raises/returns and prove returns for every WF score.
- Imported signature / tempo positions (sanitize step, global tracks): today modelled and compared — prove the round trip of key/time signatures and tempi incl. positions for all six modes where the property claims it.
- (part, voice) cells for an import mode different from the export mode: prove what is recoverable.
- The step 'notes of a part → create_part' ∘ 'load' ∘ 'save' as one end-to-end theorem reading like the property (every note's onset/duration in divisions and pitch equal) for all WF scores without the pad_bar case; then pad_bar under its exact condition.
- Regenerate defaults / mode tables from the source signatures.""",
"C05": """- sanitize=True path and measures/ties of `note_array_to_score`'s created part: compose with C11's models (they exist in Model/Measures.lean) so from_to_array has no imported hypothesis.
- float32 storage: a Lean model of 'round to binary32' (Model/Binary64.lean from C03 has binary64 rounding; a binary32 analogue) so that stored beat / quarter columns are modelled EXACTLY (bit for bit) instead of compared within 2^-20, and the sort on the stored key is proved against exactly those values.
- Score-level arrays: metrical columns left in the part's own divisions — model and state precisely.
- `ensure_notearray` / `ensure_rest_array` dispatch (Part, PartGroup, Score, list, PerformedPart): put the dispatch into the model.
- Regenerate the field lists (dtype names/order for every include_* option) from the source and prove 'columns present iff option'.""",
"C06": """- Default programs: count and tick (today compared) — prove.
- `first_note_at_zero` values of inserted controls, multiple performed parts (only the first is shifted: state what the code guarantees).
- MergeOk: prove the converse or characterise exactly (necessary and sufficient) when notes survive merging.
- binary64: using Model/Binary64.lean, model `int(np.round(...))` of seconds*ticks exactly for the tick rounding at x.5 so ticks are compared exactly with a float model rather than with tolerance; prove |tick - exact| ≤ 1/2 + rounding bound.
- The `load_performance` / `save_performance_midi` argument dispatch (Performance, PerformedPart, list; path, file object, MidiFile).""",
"C07": """- Dispatch: prove (not only compare) that a written line of kind k is rejected by every parser tried before k's own, from the generated templates (literal-prefix disjointness is decidable over the whole table).
- `validate_match_ids` / repeated ids; 0.3.0 key lists with further components; to_v1 conversion of info and meta values (key, time signature, subtitle, tempo words) — model and prove.
- FieldsOKGen side condition: derive it from the codec's output alphabet for every codec (no field text of an admissible value contains the delimiter), so line_roundtrip carries no condition on written texts.
- negative zero / nan / inf in the float codecs; bound_integers (> 1024) of FractionalSymbolicDuration.
- Whole-file level: `MatchFile` write/read (line order, header lines, version line) as a theorem about lists of lines.""",
"C08": """- 'that part_from_matchfile composes the pieces as `reconstruct` does is COMPARED' — prove the end-to-end model theorem: reconstruct(write(score, alignment)) recovers onsets/durations/bars under the stated grid condition, composing the existing piece theorems.
- Time-map knots (means of float32 onsets per score onset, grace-only onsets left out): model with exact binary32 rounding if feasible, else state exactly what is assumed.
- Additive duration components and tuple divisors: generate them (not only fixtures) and extend the model.
- sustain pedal / soft pedal lines, `sound_off`, note velocity, `adjusted offset` fields: codec round trips.
- Regenerate from source the literal pieces (default version, field names per version used by the exporter).""",
"C09": """- Layout theorems for further families: nested repeats with endings, several volta groups, marks combined with repeats, several jumps — or a general theorem about `mkSegments` (for ANY well-formed list of repeat/ending/navigation marks the segment table has shape X) by induction over the boundary list instead of per family.
- Termination for arbitrary tables produced by add_segments incl. voltas and navigation marks in all three modes (today repeat-only general, others with explicit fuel).
- ids_suffixed with duplicate ids; signatures/clefs copied only when different (sigSkip) — state and prove what the unfolded part's signature maps are (same value in force at every copied time).
- Fermata.ref / Beam references after copying (not remapped by the code: is that a defect under the property? judge carefully against the property text).""",
"C10": """- Note-array columns (onset_beat, is_downbeat, rel_onset_div, tot_measure_div, ks_fifths, ts_beats …) agree with the maps: compared on the implementation — model `note_array`'s use of the maps (metrical / key / time signature fields) and prove column = map(onset).
- Coincident elements (two signatures at one time): state what is returned (last in iteration order) using C01's order model.
- pickup_spec_composed side conditions; `SimpleStart`; parts with measures that do not tile.
- Histories: prove in the model that a description after edit = description of fresh build (or share C01's timeline model so the maps are functions of a reachable Timeline state).
- Regenerate defaults (default clef/ks/ts when absent) from source.""",
"C11": """- Relate the executable fuel-bounded `sounding` to `Walk` by a theorem (today only printed and compared).
- measures: BarsIntegral hypothesis — prove from C02's TimeMap model for every part satisfying a decidable condition, or characterise exactly; rests_fill_gaps across measures ('a later measure's window sees no rest added for an earlier one').
- sanitize_part beyond the tie check (incomplete slurs / tuplets / grace notes removal): model, generate, prove sound-same.
- fill_rests grouped by voice not staff: state exactly; `split_note` / find_tie_split kept alive as theorems about the model even if unreachable.
- Regenerate DURS/COMPOSITE_DURS are already generated; also the literal tolerance constants (eps) and `max_splits`, `n_dots` limits from source.""",
"C12": """- This property has the smallest theorem surface left open; extend the MODEL to the remaining conversion helpers in partitura/utils/music.py and globals the property names: `seconds_to_midi_ticks` array forms (done?), `estimate_symbolic_duration` is C11's, `pitch_spelling_to_midi_pitch` on arrays, `ensure_pitch_spelling_format`, `note_name_to_pitch_spelling`, `key_name_to_fifths_mode` on every accepted spelling incl. lower-case / 'maj'/'min' forms and rejection paths, `midi_pitch_to_pitch_spelling` defaults, `format_symbolic_duration` / `symbolic_to_numeric_duration` incl. tuplets and dots for all labels, `to_quarter_tempo`, tempo unit strings ('q', 'q.', 'h', …) — every accepted unit, Interval arithmetic (`Interval`, `transpose_note`-level helpers not in C16).
- freq_pitch: implementation compared on MIDI 0..127 × three a4 — use the binary64 model to bound the float error or widen the comparison domain.
- Make every table the theorems mention regenerated (check none is hand-copied), and add whole-table obligations for any table not yet covered (e.g. consistency between LABEL_DURS, DOT_MULTIPLIERS, SYM_DURS: every SYM_DURS entry equals label × dots).""",
"C13": """- Float effects inside the rasteriser (binary64 products before np.round): use Model/Binary64.lean (exact binary64 rounding, from C03) to model `np.round(time_div * onset)` exactly on float inputs so cells are compared exactly at x.5 boundaries, and prove the exact-rational model agrees whenever |err| < distance to the nearest half.
- The decoder (`pianoroll_to_notearray`) for float-valued rolls / velocity 0; note merging of adjacent cells; `remove_silence`, `end_time`, margins in decode_encode (state what IS recoverable: onsets modulo the shift).
- Argument kinds outside the model (strings / booleans for time_div, end_time, time_margin; non-integer pitch_margin): model the validation / rejection.
- compute_pitch_class_pianoroll normalisation; compute_pianoroll_lookup_table if present; regenerate defaults (piano_range bounds 21..108, drum channel, default time_div per unit) from source.""",
"C14": """- `set_off_can_pass_sound_off`: model the PerformedNote setters (note_on/note_off/pitch/velocity __setitem__) fully and prove which invariants each re-establishes; the threshold property setter recomputation over any history is there — extend histories with notes appended/removed from `PerformedPart.notes`, controls edited in place.
- Both `pitch` and `midi_pitch` keys: state precisely.
- sustain_pedal_threshold validation, `PerformedPart.from_note_array`, `Performance` container (note_array over several parts: id prefixes, track), `num_tracks`, `cleanup`/`sanitize` helpers: more code into the model.
- Regenerate default threshold (64), control number (64) and field lists from source.""",
"C15": """- Time points of the merged part and their quarter values ('compared, not stated as theorems'): state + prove (merged timeline = union; quarter = lcm rescale) by composing with C01's model if practical.
- Attributes other than class/times/voice/staff/pitch/ties/refs: identity of re-registered objects — model as 'same object ids' in the heap style of Model/RefHeap.lean (C20) and prove merge re-registers the same objects (no copies) — this is what seed C15-h broke.
- load_score_as_part, `merge_parts` argument forms (Score, list, PartGroup nesting, single part identity), reassign option validation / rejection path.
- lcm / rescale of divisions when parts have different or changing quarter durations: prove exactness (no rounding) for every combination.""",
"C16": """- Non-mutation / frame as a THEOREM: use the heap style of Model/RefHeap.lean (C20): model `transpose` as deepcopy + in-place update over a heap of note cells and prove the input heap cells are unchanged and every non-pitch field of the copy equals the original.
- `transpose` on everything the code touches: KeySignature objects (fifths shifted? check code), chord symbols / Harmony / RomanNumeral, unpitched notes, grace notes; Interval validation and rejection paths (invalid quality/number combos), `Interval` construction from strings, negative / compound intervals (> octave), direction 'down'.
- Prove semitone / step laws for compound intervals for ALL numbers (not only the 39-class table) by reduction mod 7 / 12 lemma.
- Regenerate every table used (already?) and the `transpose_note` branch constants.""",
"C17": """- VoSA: the code's search IS the model by correspondence; tighten by modelling the remaining glue (`prepare_note_array`, grace-note handling, chord clustering by onset, `monophonic_voices` option, the final renumbering) and proving well-formedness end to end from the raw note array.
- ps13 stage 2 (if the property / code has it) and `ensure_notearray` glue; `estimate_spelling` return options (`return_ks`…).
- Key estimation: binary64 corrcoef vs exact order — with Model/Binary64.lean bound the error and prove the argmax agrees whenever the exact gap exceeds a computable bound; evaluate the bound per case in the oracle (turn 'compared' into 'proved under a checked side condition').
- All key-profile tables regenerated (done) — add whole-table sanity obligations (24 profiles, 12 entries, positivity) if missing.""",
"C18": """- 'positivity proved for the two built-in tempo methods only' is fine; extend to `tempo_by_average` / `tempo_by_derivative` actual arithmetic if modelled partially; monotone time maps.
- performance_roundtrip with non-unique score ids / user-given snote_ids: state exactly; `to_matched_score` field dispatch (include_score_markings etc.).
- Float rounding 'bounded by the oracle's tolerance': use binary32/binary64 models to make the tolerance a proved bound for the log2/exp2 columns (error ≤ k ulp) rather than empirical.
- The glue: `encode_performance` / `decode_performance` argument handling (alignment forms, missing labels, insertions/deletions skipped), `PerformanceCodec`-level helpers, `get_time_maps_from_alignment` with `remove_ornaments`, `get_unique_onset_idxs` — more of it in the model with theorems.""",
"C19": """- 'importer = semantics is compared, not proved' is inherent (Python); instead enlarge the semantics and writer models: kern `*x` exchanges, three-way joins, `**dynam` spines ignored, slur/beam signifiers; MEI beams, clef changes, fermatas, barline/repeat attributes, nested tuplets, @tie attributes (importer TODO: decide whether the property demands it), multiRest.
- Props/C19Sections: <ending> transparency and scoreDef placement — prove.
- kern chords with different written lengths: semantics vs importer differ — is that a genuine defect under the property ('each note's own duration')? Decide with a concrete witness and either fix or record.
- Regenerate KERN_NOTES / KERN_DURS / MEI tables (done); also the importer's literal sets (ignored tokens, tandem prefixes) from source.""",
"C20": """- Non-mutation as theorems in the heap style of Model/RefHeap.lean: pick the read-only entry points whose implementation DOES mutate-then-restore or copies internally (unfold_part_* deep copies, `save_musicxml` on measure-less parts, `note_array` caches, `Score` container protocol, `merge`) and model them over a heap: prove the input cells are unchanged and a second call returns an equal result (repeatability from purity + no hidden state; model the caches explicitly: `_quarter_map`, `_number_of_staves`, and prove results do not depend on cache state).
- Container protocol: slicing, negative indices, `__contains__`, `__reversed__`, `index`, `count`, concurrent iteration with mutation between `next` calls (state what the code guarantees).
- Extend the set of entry points under the frame check to every public read-only function of partitura's top-level API (`partitura.__all__` + io + musicanalysis + utils listed in the docs): generate the list from the source so a new export function is picked up automatically.""",
}
