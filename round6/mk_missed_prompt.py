"""coordinator helper (round 6): prompt for strengthening a check against round-6 seeds it missed.
   usage: mk_missed_prompt.py Cxx y [y2]  -> round6/missed-Cxx.txt (+ copy in /tmp/prompts)"""
import json, sys, re
pid = sys.argv[1]; letters = sys.argv[2:]; lc = pid.lower()
head = open("/verif/round4/_head.txt").read().replace("@ID@", pid).replace("@lc@", lc)
head = head.replace("A fourth round of seeded changes", "A sixth round of seeded changes")
head = head.replace("(5, 9.2, 9.3)", "(5, 9.2 … 9.6) and round6/reports/%s.md if it exists (what the builder of this round just added)" % pid)
head = head.replace("Quick must stay within ~60 s wall.", "Quick must stay within ~75 s wall on an idle machine (the machine is shared and loaded now: walls of several minutes are lock waits, not defects).  You have about 45 minutes: do the generator + oracle part FIRST (that is what catches the seed), the Lean part second, and keep everything building and passing at every step.")
out = [head.rstrip(), ""]
for y in letters:
    m = json.load(open("/tmp/seed-%s-%s/seed_meta.json" % (pid, y)))
    out.append("* /tmp/seed-%s-%s — %s\n  Needs to manifest: %s\n" % (pid, y, m["summary"], m["needs_to_manifest"]))
t = "\n".join(out)
open("/verif/round6/missed-%s.txt" % pid, "w").write(t); open("/tmp/prompts/missed-%s.txt" % pid, "w").write(t)
print(len(t))
