"""coordinator helper (round 6): prompt for re-creating a round-5 seed whose worktree was lost with /tmp
(the independent agent's description survived in round5/ext-Cxx.txt).  usage: mk_reseed_prompt.py Cxx y [y2]"""
import json, re, sys
pid = sys.argv[1]; letters = sys.argv[2:]
prop = [json.loads(l) for l in open("/verif/properties.jsonl") if json.loads(l)["id"] == pid][0]
ext = open("/verif/round5/ext-%s.txt" % pid).read()
tail = ext[ext.index("ADDITIONALLY"):]
descs = {}
for m in re.finditer(r"^\* /tmp/seed-%s-([a-z])(.*?)(?=^\* /tmp/seed-|\Z)" % pid, tail, re.S | re.M):
    d = m.group(2).strip()
    d = re.split(r"\s+(?:Family( for both)?:|Wanted:|Add the oracle clause|Verify:)", d)[0]
    d = re.sub(r"\(do not edit[^)]*\)\s*", "", d)
    descs[m.group(1)] = d.strip()
out = []
out.append("""You are helping to test how robust an independent verification effort for the Python library CPJKU/partitura
(symbolic music; source at /repo, read-only for you) is.  An earlier helper wrote realistic BREAKING changes to the
library for the semantic property below; the scratch directories holding them were lost, only a description of each
change survived.  Re-create each change from its description.

Never edit /repo, never read or write anything under /verif, never run `git commit`.

For each change listed below:
  1. create a private worktree:   git -C /repo worktree add --detach /tmp/seed-%(pid)s-<letter> HEAD
  2. edit the files under /tmp/seed-%(pid)s-<letter>/partitura/ in place so that they implement the described change — it must
     look like something a maintainer could plausibly commit (refactoring, clean-up, optimisation, tolerance tweak …):
     no comments that give it away, no special-casing of particular values.  Read the CURRENT code first; if the
     description mentions details that no longer match the code exactly, keep the MECHANISM and the exposing input.
  3. the change must (a) break the property below on the described exposing input and hold without the change,
     (b) keep the existing test suite green:   /venv/bin/python /tmp/suite_compare.py /tmp/seed-%(pid)s-<letter>
         (takes a few minutes; prints JSON, "baseline_missing" must be [] and exit status 0),
     (c) need the specific input / history described to manifest.
  4. write in the worktree's top directory:
     seed_patch.diff   git -C /tmp/seed-%(pid)s-<letter> diff -- partitura > /tmp/seed-%(pid)s-<letter>/seed_patch.diff
     seed_demo.py      a small self-contained program using only partitura's public API (imported from PYTHONPATH) that
                       exits 0 when the property holds on its input and exits 1 (printing what went wrong) when not;
                       expected values computed in the demo from first principles, not recorded outputs.  It MUST
                       exit 0 with   PYTHONPATH=/repo /venv/bin/python -W ignore seed_demo.py
                       and exit 1 with  PYTHONPATH=/tmp/seed-%(pid)s-<letter> /venv/bin/python -W ignore seed_demo.py
     seed_meta.json    {"property": "%(pid)s", "summary": "<what was changed and why it breaks the property, 3-8 sentences>",
                        "needs_to_manifest": "<which input / history / option combination exposes it and why ordinary use
                        and the test suite do not>", "files_changed": ["partitura/..."]}
  Leave the worktree in place (edited) when you finish.

/venv/bin/python has partitura's dependencies (numpy 2.x, scipy, lxml, mido); PYTHONPATH selects which tree is imported.
Before you finish re-run the three commands (suite, demo on /repo, demo on the worktree) for every worktree and report
the results truthfully.  Final report (short): per worktree the mechanism in two sentences and the three results.

THE PROPERTY (%(pid)s)
%(text)s

THE CHANGES TO RE-CREATE
""" % dict(pid=pid, text=json.dumps(prop, indent=1)))
for y in letters:
    out.append("* /tmp/seed-%s-%s %s\n" % (pid, y, descs[y]))
print("\n".join(out))
