"""apply the C10 fixes to the worktree one at a time (writing one patch each), then all together"""
import subprocess, sys, os
WT = "/tmp/wt-C10"
OUT = "/verif/fixes"
SCORE = "partitura/score.py"
GEN = "partitura/utils/generic.py"

FIXES = {
 "C10-1-metrical-position-row-stack": [(SCORE, [
  ("            lin_poly_coeff = np.row_stack(\n", "            lin_poly_coeff = np.vstack(\n"),
 ])],
 "C10-2-clef-map-no-clefs": [(SCORE, [
  ("""                for c in self.iter_all(Clef)
            ]
        )

        interpolators = []""",
   """                for c in self.iter_all(Clef)
            ]
        ).reshape(-1, 5)

        interpolators = []"""),
 ])],
 "C10-6-clef-map-empty-part": [(SCORE, [
  ("""            if staff_clefs[0, 0] > self.first_point.t:
                staff_clefs = np.vstack(""",
   """            if (
                self.first_point is not None
                and staff_clefs[0, 0] > self.first_point.t
            ):
                staff_clefs = np.vstack("""),
 ])],
 "C10-3-measure-maps-no-measures": [(SCORE, [
  ("""        measures = np.array([(m.start.t, m.end.t) for m in self.iter_all(Measure)])

        # correct for anacrusis
        divs_per_beat = self.inv_beat_map(
            1 + self.beat_map(0)
        )  # find the divs per beat in the first measure
        if (
            measures[0][1] - measures[0][0]
            < self.time_signature_map(0)[0] * divs_per_beat
        ):
            measures[0][0] = (
                measures[0][1] - self.time_signature_map(0)[0] * divs_per_beat
            )

        if len(measures) == 0:  # no measures in the piece
            # default only one measure spanning the entire timeline
            warnings.warn("No measures found, assuming only one measure")
            if self.first_point is None:
                t0, tN = 0, 0
            else:
                t0 = self.first_point.t
                tN = self.last_point.t

            measures = np.array([(t0, tN)])
""",
   """        measures = np.array([(m.start.t, m.end.t) for m in self.iter_all(Measure)])

        if len(measures) == 0:  # no measures in the piece
            # default only one measure spanning the entire timeline
            warnings.warn("No measures found, assuming only one measure")
            if self.first_point is None:
                t0, tN = 0, 0
            else:
                t0 = self.first_point.t
                tN = self.last_point.t

            measures = np.array([(t0, tN)])
        else:
            # correct for anacrusis
            divs_per_beat = self.inv_beat_map(
                1 + self.beat_map(0)
            )  # find the divs per beat in the first measure
            if (
                measures[0][1] - measures[0][0]
                < self.time_signature_map(0)[0] * divs_per_beat
            ):
                measures[0][0] = (
                    measures[0][1] - self.time_signature_map(0)[0] * divs_per_beat
                )
"""),
  ("""        # correct for anacrusis
        divs_per_beat = self.inv_beat_map(
            1 + self.beat_map(0)
        )  # find the divs per beat in the first measure
        if (
            measures[0][1] - measures[0][0]
            < self.time_signature_map(0)[0] * divs_per_beat
        ):
            measures[0][0] = (
                measures[0][1] - self.time_signature_map(0)[0] * divs_per_beat
            )

        if len(measures) == 0:  # no measures in the piece
            # default only one measure spanning the entire timeline
            warnings.warn("No measures found, assuming only one measure")
            if self.first_point is None:
                t0, tN = 0, 0
            else:
                t0 = self.first_point.t
                tN = self.last_point.t

            measures = np.array([(t0, tN, 1)])
""",
   """        if len(measures) == 0:  # no measures in the piece
            # default only one measure spanning the entire timeline
            warnings.warn("No measures found, assuming only one measure")
            if self.first_point is None:
                t0, tN = 0, 0
            else:
                t0 = self.first_point.t
                tN = self.last_point.t

            measures = np.array([(t0, tN, 1)])
        else:
            # correct for anacrusis
            divs_per_beat = self.inv_beat_map(
                1 + self.beat_map(0)
            )  # find the divs per beat in the first measure
            if (
                measures[0][1] - measures[0][0]
                < self.time_signature_map(0)[0] * divs_per_beat
            ):
                measures[0][0] = (
                    measures[0][1] - self.time_signature_map(0)[0] * divs_per_beat
                )
"""),
 ])],
 "C10-4-single-time-signature-backfill": [(SCORE, [
  ("""            tss = np.array([tss[0, :], tss[0, :]])
        elif tss[0, 0] > self.first_point.t:
            tss = np.vstack(""",
   """            tss = np.array([tss[0, :], tss[0, :]])

        if self.first_point is not None and tss[0, 0] > self.first_point.t:
            tss = np.vstack("""),
 ])],
 "C10-5-interp1d-single-sample-list-input": [(GEN, [
  ("""            if not isinstance(input_var, np.ndarray):
                # the output of scipy's interp1d is always an array""",
   """            if np.ndim(input_var) == 0:
                # the output of scipy's interp1d is always an array"""),
 ])],
 "C10-7-metrical-position-single-measure": [(SCORE, [
  ("""        if len(ms) < 2:
            warnings.warn("No or single measures found, metrical position 0 everywhere")""",
   """        if len(ms) < 1:
            warnings.warn("No measures found, metrical position 0 everywhere")"""),
 ])],
 "C10-8-pickup-start-truncated": [(SCORE, [
  ("""                measures[0][0] = (
                    measures[0][1] - self.time_signature_map(0)[0] * divs_per_beat
                )
        inter_function = interp1d(
            measures[:, 0],
            measures[:, :].astype(int),""" if False else
   """            ):
                measures[0][0] = (
                    measures[0][1] - self.time_signature_map(0)[0] * divs_per_beat
                )

        inter_function = interp1d(
            measures[:, 0],
            measures[:, :].astype(int),""",
   """            ):
                measures[0][0] = np.round(
                    measures[0][1] - self.time_signature_map(0)[0] * divs_per_beat
                )

        inter_function = interp1d(
            measures[:, 0],
            measures[:, :].astype(int),"""),
  ("""            ):
                measures[0][0] = (
                    measures[0][1] - self.time_signature_map(0)[0] * divs_per_beat
                )

        inter_function = interp1d(
            measures[:, 0],
            measures[:, 2],""",
   """            ):
                measures[0][0] = np.round(
                    measures[0][1] - self.time_signature_map(0)[0] * divs_per_beat
                )

        inter_function = interp1d(
            measures[:, 0],
            measures[:, 2],"""),
 ])],
}
BASE = {"C10-8-pickup-start-truncated": ["C10-3-measure-maps-no-measures"]}

def sh(*a):
    return subprocess.run(a, cwd=WT, check=True, stdout=subprocess.PIPE, text=True).stdout

def apply(name):
    for path, reps in FIXES[name]:
        s = open(os.path.join(WT, path)).read()
        for old, new in reps:
            assert s.count(old) == 1, (name, old[:60], s.count(old))
            s = s.replace(old, new)
        open(os.path.join(WT, path), "w").write(s)

which = sys.argv[1:] or list(FIXES)
import shutil
for name in FIXES:
    sh("git", "checkout", "--", SCORE, GEN)
    if name in BASE:
        for b in BASE[name]:
            apply(b)
        out = ""
        for path, _ in FIXES[name]:
            shutil.copy(os.path.join(WT, path), "/tmp/c10work/base.tmp")
        apply(name)
        for path, _ in FIXES[name]:
            p = subprocess.run(["diff", "-u", "--label", "a/" + path, "--label", "b/" + path,
                                "/tmp/c10work/base.tmp", os.path.join(WT, path)], stdout=subprocess.PIPE, text=True)
            out += "diff --git a/%s b/%s\n" % (path, path) + p.stdout
        if name in which:
            open(os.path.join(OUT, name + ".patch"), "w").write(out)
        continue
    apply(name)
    if name in which:
        open(os.path.join(OUT, name + ".patch"), "w").write(sh("git", "diff"))
sh("git", "checkout", "--", SCORE, GEN)
for name in FIXES:
    apply(name)
print(sh("git", "diff", "--stat"))
